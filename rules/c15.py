"""C15 Advertised service instances are discovered faithfully (partial: record kinds agree between the two directions; ingest filter)."""
import itertools
from common import Report, Violation
import tables
from tables import Evaluator, EnumVal, Opaque, NotATable
import mirutil as mu


def viol(report, rule, b, kind, msg):
    report.violate(Violation(report.key(b.qname, rule, kind, ""), "%s:%d" % (b.file, b.line), rule, "%s: %s" % (rule, msg)))


def rdata_variants_built(ctx, b, depth=0, seen=None):
    """RData variants constructed by b or the local functions it calls (conversion helpers)"""
    prog = ctx.prog
    seen = seen or set()
    out = set()
    if b.id in seen or depth > 3:
        return out
    seen.add(b.id)
    for bi, si, s in mu.aggregates(b, "rdata::RData"):
        out.add(s["rv"]["vn"])
    for (y, bi, why) in ctx.cg.edges.get(b.id, []):
        cb = prog.bodies[y]
        if cb.crate == "simple_mdns":
            out |= rdata_variants_built(ctx, cb, depth + 1, seen)
    return out


PASS_THROUGH = ("Iterator::map", "Iterator::inspect", "Iterator::collect", "IntoIterator>::into_iter", "<impl [T]>::iter",
                "Iterator>::next", "Iterator::cloned", "Iterator::copied", "Iterator::peekable", "Iterator::by_ref", "Iterator::take",
                "Iterator::skip", "Deref>::deref", "Iterator::rev", "Iterator::fuse")


def _proj_key(pl):
    return [(p.get("dc"), p.get("f")) if isinstance(p, dict) else p for p in pl["p"]]


def behind_filter(x, op, filter_closure_id, depth=40):
    """walk the first-argument chain of `op` backwards (through coroutine-saved places too)"""
    defs = mu.defs_of(x)
    cur_op = op
    steps = []
    for _ in range(depth):
        if cur_op.get("o") not in ("copy", "move"):
            return False, "flow lost at a constant (%s)" % " <- ".join(steps[-4:])
        pl = cur_op["pl"]
        nxt = None
        if pl["p"] and any(isinstance(p, dict) and "dc" in p and p.get("n") is None for p in pl["p"]):
            # a value saved in the coroutine state: find what is written to the same state slot
            key = _proj_key(pl)
            # the slot itself or a prefix of it
            cands = []
            for bl in x.blocks:
                if bl["cleanup"]:
                    continue
                for s in bl["stmts"]:
                    if s["s"] == "assign" and s["pl"]["p"] and _proj_key(s["pl"]) == key[:len(s["pl"]["p"])] and len(s["pl"]["p"]) >= 3:
                        cands.append(("stmt", s["rv"]))
                tt = bl["term"]
                if tt["t"] == "call" and tt["dest"]["p"] and _proj_key(tt["dest"]) == key[:len(tt["dest"]["p"])] and len(tt["dest"]["p"]) >= 3:
                    cands.append(("call", tt))
            if len(cands) != 1:
                return False, "flow lost at a saved value with %d writers (%s)" % (len(cands), " <- ".join(steps[-4:]))
            kind, v = cands[0]
            if kind == "call":
                nxt = ("call", v)
            elif v["k"] == "use":
                cur_op = v["op"]
                continue
            elif v["k"] == "ref":
                cur_op = {"o": "copy", "pl": v["pl"]}
                continue
            else:
                return False, "flow lost at %s" % v["k"]
        else:
            l = pl["l"]
            d = mu.single_def(defs, l)
            if d is None:
                if l <= x.argc:
                    return False, "reaches parameter _%d without passing the filter (%s)" % (l, " <- ".join(steps[-4:]))
                return False, "flow lost at _%d (%d definitions; %s)" % (l, len(defs.get(l, [])), " <- ".join(steps[-4:]))
            if d[1] == "term":
                nxt = ("call", d[2])
            else:
                rv = d[2]
                if rv["k"] == "use":
                    cur_op = rv["op"]
                    continue
                if rv["k"] == "ref":
                    cur_op = {"o": "copy", "pl": rv["pl"]}
                    continue
                if rv["k"] == "cast":
                    cur_op = rv["op"]
                    continue
                return False, "flow lost at an rvalue of kind %s (%s)" % (rv["k"], " <- ".join(steps[-4:]))
        _, tt = nxt
        cal = tt["callee"]["def"] if tt["callee"] else "(indirect)"
        steps.append(cal.split("::")[-1])
        if cal == "std::iter::Iterator::filter":
            cl = mu.op_local(tt["args"][1])
            dd = mu.single_def(defs, cl) if cl is not None else None
            if dd is not None and dd[1] != "term" and dd[2].get("ak") == "closure" and dd[2]["def"] == filter_closure_id:
                return True, "%d steps" % len(steps)
            return False, "passes a different filter (%s)" % " <- ".join(steps[-4:])
        if not any(cal.endswith(pt) for pt in PASS_THROUGH):
            return False, "the value passes `%s`, which can merge in records that never saw the filter (flow: %s)" % (cal, " <- ".join(steps[-6:]))
        if not tt["args"]:
            return False, "flow lost at %s" % cal
        cur_op = tt["args"][0]
    return False, "flow too long"


def run(ctx):
    prog = ctx.prog
    report = Report("C15", ctx, "R1 the RData variants InstanceInformation::into_records builds (A, AAAA, SRV, TXT) are exactly the variants "
                    "from_records consumes, and each arm stores into the matching collection (A/AAAA -> ip_addresses, SRV.port -> ports, "
                    "TXT -> attributes); R2 in both back-ends every record handed to add_cached_resource passed the filter "
                    "name != own instance AND name.is_subdomain_of(service).")
    ir = ctx.must_find(report, "simple_mdns::InstanceInformation::into_records")
    fr = ctx.must_find(report, "simple_mdns::InstanceInformation::from_records")
    if ir is None or fr is None:
        return report.finish()
    built = rdata_variants_built(ctx, ir)
    # arms of from_records: switch on discriminant of resource.rdata
    radt = prog.adts["simple_dns::dns::rdata::RData"]
    vnames = [v["name"] for v in radt["variants"]]
    arms = {}
    for bi, bl in enumerate(fr.blocks):
        t = bl["term"]
        if bl["cleanup"] or t["t"] != "switch":
            continue
        d = t["discr"]
        l = mu.op_local(d)
        dd = mu.single_def(mu.defs_of(fr), l) if l is not None else None
        if dd is not None and dd[1] != "term" and dd[2]["k"] == "discr" and "RData" in fr.ty(dd[2]["pl"]["t"])["s"]:
            for v, tg in t["arms"]:
                arms[vnames[int(v)]] = tg
            other = t["otherwise"]
            sw_block = bi
    report.count()
    if not arms:
        viol(report, "C15-R1", fr, "no-match", "from_records no longer matches on the record's RData variant")
        return report.finish()
    consumed = set(arms)
    if built != consumed:
        viol(report, "C15-R1", fr, "variant-sets", "into_records builds %s records but from_records consumes %s: a record kind is dropped or "
             "never produced between the two directions" % (sorted(built), sorted(consumed)))
    else:
        report.nontriv("variant sets")
        report.sample({"into_records builds": sorted(built), "from_records consumes": sorted(consumed)})
    # each arm stores into the right collection: the insert/extend call in the arm takes &mut <local named ...>
    # collections by role: the local that ends up in the field of that name of the InstanceInformation built at the end
    defs = mu.defs_of(fr)
    names = {}
    for _bi, _si, s0 in mu.aggregates(fr, "InstanceInformation"):
        for fname, op in zip(s0["rv"]["fields"], s0["rv"]["ops"]):
            l0 = mu.origin_local(fr, defs, mu.op_local(op))
            if l0 is not None:
                names[l0] = fname
    if not names:
        names = fr.local_names()
    want = {"A": "ip_addresses", "AAAA": "ip_addresses", "SRV": "ports", "TXT": "attributes"}
    for vn, tg in sorted(arms.items()):
        report.count()
        # blocks of this arm only: everything reachable from the arm without re-entering the match, minus what the
        # `_ => {}` arm also reaches (the common continuation of the loop)
        region = mu.reachable_from(fr, tg, avoid={sw_block}) - mu.reachable_from(fr, other, avoid={sw_block})
        stores = []
        for bi in sorted(region):
            t = fr.blocks[bi]["term"]
            if t["t"] == "call" and t["callee"] and t["callee"]["name"] in ("insert", "extend", "push"):
                l = mu.op_local(t["args"][0])
                for st in mu.trace_back(fr, defs, l if l is not None else -1):
                    if st[2] != "term" and st[3].get("k") == "ref" and not st[3]["pl"]["p"]:
                        stores.append(names.get(st[3]["pl"]["l"]))
        if stores == [want.get(vn)]:
            report.nontriv("arm:" + vn)
        else:
            viol(report, "C15-R1", fr, "arm-" + vn, "the %s arm of from_records stores into %s, expected %s" % (vn, stores, want.get(vn)))
    # SRV arm reads .port ; A/AAAA arms read .address
    # ---- R2 ingest filters
    n = 0
    for q in ("simple_mdns::sync_discovery::service_discovery::add_response_to_resources",
              "simple_mdns::async_discovery::service_discovery::add_response_to_resources"):
        b = prog.find(q)
        report.count()
        if b is None:
            report.lost_anchor(q)
            continue
        fam = [b] + mu.closures_of(prog, b)
        filt = None
        for x in fam:
            for bi, t in mu.calls(x, r"^std::iter::Iterator::filter$"):
                l = mu.op_local(t["args"][1])
                d = mu.single_def(mu.defs_of(x), l) if l is not None else None
                if d is not None and d[1] != "term" and d[2].get("ak") == "closure":
                    filt = (x, prog.bodies.get(d[2]["def"]))
        if filt is None or filt[1] is None:
            viol(report, "C15-R2", b, "no-filter", "%s does not filter the received records" % b.qname)
            continue
        host, cb = filt
        try:
            bad = []
            for ne, sub in itertools.product((0, 1), repeat=2):
                seen = {}

                def f_ne(vals, ne=ne):
                    seen["ne"] = repr(vals[1])
                    return ne

                def f_sub(vals, sub=sub):
                    seen["sub"] = repr(vals[1])
                    return sub
                hooks = {("call", "std::cmp::PartialEq::ne"): f_ne, ("call", "simple_dns::Name::<'a>::is_subdomain_of"): f_sub}
                ev = Evaluator(prog, hooks)
                env = ("closure", cb.id, (Opaque("FULL_NAME"), Opaque("SERVICE_NAME")))
                r = ev.call(cb, [env, {"name": Opaque("record.name")}])
                if r != int(ne and sub):
                    bad.append("name!=own=%d, subdomain=%d -> %r" % (ne, sub, r))
            if bad:
                viol(report, "C15-R2", cb, "filter", "the ingest filter is not `name != own instance && name.is_subdomain_of(service)`: %s" % "; ".join(bad))
            else:
                report.nontriv("ingest filter " + q.split("::")[1])
                n += 1
        except NotATable as e:
            viol(report, "C15-R2", cb, "not-a-table", str(e))
        # every record stored (add_cached_resource) or reported (from_records) is an item of that filtered iterator: walking
        # the value back through the iterator pipeline, the verified filter is met before any adapter that merges a second
        # source (chain / zip / extend) and before the source itself
        adds = []
        for x in fam:
            adds += [(x, t, 1, "stored") for bi, t in mu.calls(x, r"ResourceRecordManager::<'a>::add_cached_resource$")]
            adds += [(x, t, 1, "reported") for bi, t in mu.calls(x, r"InstanceInformation::from_records$")]
        report.count()
        if len(adds) < 3:
            viol(report, "C15-R2", b, "no-insert", "%s no longer stores and reports received records (found %d uses, expected 3)" % (b.qname, len(adds)))
        for x, t, ai, what in adds:
            report.count()
            okf, why = behind_filter(x, t["args"][ai], cb.id)
            if okf:
                report.nontriv("%s %s bb-flow %s" % (what, q.split("::")[1], why))
            else:
                viol(report, "C15-R2", x, "unfiltered-" + what, "a record %s by %s does not come out of the own-instance / subdomain filter: %s" % (
                    what, b.qname, why))
    report.floor("ingest filters verified", n, 2)
    report.sample({"rule": "R2", "filter": "aw.name != full_name && aw.name.is_subdomain_of(service_name)"})
    report.assumptions += ["set / attribute equality across the wire and the escape / unescape inverse are value-level and not decided"]
    return report.finish()
