"""C15 Advertised service instances are discovered faithfully (partial: record kinds agree between the two directions; ingest filter)."""
import itertools
import re
from common import Report, Violation
import tables
from tables import Evaluator, EnumVal, Opaque, NotATable
import mirutil as mu


def viol(report, rule, b, kind, msg):
    report.violate(Violation(report.key(b.qname, rule, kind, ""), "%s:%d" % (b.file, b.line), rule, "%s: %s" % (rule, msg)))


def _value_loc(b, defs, pl, depth=8):
    """(origin local, field path) of the value moved out of `pl`, following whole-value moves (`_a = move _b.f` -> (_b, (f,)))"""
    cur = pl
    for _ in range(depth):
        if cur["p"]:
            return mu.resolve_loc(b, defs, cur)
        d = mu.single_def(defs, cur["l"])
        if d is None or d[1] == "term" or d[2].get("k") != "use" or d[2]["op"].get("o") not in ("copy", "move"):
            return (cur["l"], ())
        cur = d[2]["op"]["pl"]
    return None


def rdata_variants_built(ctx, b, depth=0, seen=None):
    """RData variants constructed by b or the local functions it calls (conversion helpers)"""
    prog = ctx.prog
    seen = seen or set()
    out = set()
    if b.id in seen or depth > 3:
        return out
    seen.add(b.id)
    for bi, si, s in mu.aggregates(b, "rdata::RData"):
        out.add(s["rv"]["vn"])
    for (y, bi, why) in ctx.cg.edges.get(b.id, []):
        cb = prog.bodies[y]
        if cb.crate == "simple_mdns":
            out |= rdata_variants_built(ctx, cb, depth + 1, seen)
    return out


PASS_THROUGH = ("std::iter::Iterator::next", "IntoIterator::into_iter", "Iterator::map", "Iterator::inspect", "Iterator::collect", "IntoIterator>::into_iter", "<impl [T]>::iter",
                "Iterator>::next", "Iterator::cloned", "Iterator::copied", "Iterator::peekable", "Iterator::by_ref", "Iterator::take",
                "Iterator::skip", "Deref>::deref", "Iterator::rev", "Iterator::fuse")


def _proj_key(pl):
    return [(p.get("dc"), p.get("f")) if isinstance(p, dict) else p for p in pl["p"]]


def behind_filter(x, op, filter_closure_id, depth=40):
    """walk the first-argument chain of `op` backwards (through coroutine-saved places too)"""
    defs = mu.defs_of(x)
    cur_op = op
    steps = []
    for _ in range(depth):
        if cur_op.get("o") not in ("copy", "move"):
            return False, "flow lost at a constant (%s)" % " <- ".join(steps[-4:])
        pl = cur_op["pl"]
        nxt = None
        if pl["p"] and any(isinstance(p, dict) and "dc" in p and p.get("n") is None for p in pl["p"]):
            # a value saved in the coroutine state: find what is written to the same state slot
            key = _proj_key(pl)
            # the slot itself or a prefix of it
            cands = []
            for bl in x.blocks:
                if bl["cleanup"]:
                    continue
                for s in bl["stmts"]:
                    if s["s"] == "assign" and s["pl"]["p"] and _proj_key(s["pl"]) == key[:len(s["pl"]["p"])] and len(s["pl"]["p"]) >= 3:
                        cands.append(("stmt", s["rv"]))
                tt = bl["term"]
                if tt["t"] == "call" and tt["dest"]["p"] and _proj_key(tt["dest"]) == key[:len(tt["dest"]["p"])] and len(tt["dest"]["p"]) >= 3:
                    cands.append(("call", tt))
            if len(cands) != 1:
                return False, "flow lost at a saved value with %d writers (%s)" % (len(cands), " <- ".join(steps[-4:]))
            kind, v = cands[0]
            if kind == "call":
                nxt = ("call", v)
            elif v["k"] == "use":
                cur_op = v["op"]
                continue
            elif v["k"] == "ref":
                cur_op = {"o": "copy", "pl": v["pl"]}
                continue
            else:
                return False, "flow lost at %s" % v["k"]
        else:
            l = pl["l"]
            d = mu.single_def(defs, l)
            if d is None:
                if l <= x.argc:
                    return False, "reaches parameter _%d without passing the filter (%s)" % (l, " <- ".join(steps[-4:]))
                return False, "flow lost at _%d (%d definitions; %s)" % (l, len(defs.get(l, [])), " <- ".join(steps[-4:]))
            if d[1] == "term":
                nxt = ("call", d[2])
            else:
                rv = d[2]
                if rv["k"] == "use":
                    cur_op = rv["op"]
                    continue
                if rv["k"] == "ref":
                    cur_op = {"o": "copy", "pl": rv["pl"]}
                    continue
                if rv["k"] == "cast":
                    cur_op = rv["op"]
                    continue
                return False, "flow lost at an rvalue of kind %s (%s)" % (rv["k"], " <- ".join(steps[-4:]))
        _, tt = nxt
        cal = tt["callee"]["def"] if tt["callee"] else "(indirect)"
        steps.append(cal.split("::")[-1])
        if cal == "std::iter::Iterator::filter":
            cl = mu.op_local(tt["args"][1])
            dd = mu.single_def(defs, cl) if cl is not None else None
            if dd is not None and dd[1] != "term" and dd[2].get("ak") == "closure" and dd[2]["def"] == filter_closure_id:
                return True, "%d steps" % len(steps)
            return False, "passes a different filter (%s)" % " <- ".join(steps[-4:])
        if not any(cal.endswith(pt) for pt in PASS_THROUGH):
            return False, "the value passes `%s`, which can merge in records that never saw the filter (flow: %s)" % (cal, " <- ".join(steps[-6:]))
        if not tt["args"]:
            return False, "flow lost at %s" % cal
        cur_op = tt["args"][0]
    return False, "flow too long"


def _block_consts(bl):
    """constant operands of a block (statements and call arguments)"""
    out = []

    def op(o):
        if isinstance(o, dict) and o.get("o") == "const":
            out.append(o["k"])
    for s in bl["stmts"]:
        if s["s"] != "assign":
            continue
        rv = s["rv"]
        for key in ("op", "a", "b"):
            if key in rv:
                op(rv[key])
        for o in rv.get("ops", []):
            op(o)
    t = bl["term"]
    if t["t"] == "call":
        for a in t["args"]:
            op(a)
    return out


def _has_eq_const(bl):
    for k in _block_consts(bl):
        if k.get("c") == "int":
            if str(k.get("v")) == "61":
                return True
        elif "=" in str(k.get("s", "")) or "=" in str(k.get("v", "")):
            return True
    return False


OPT_STRING = re.compile(r"Option<(std::string::|alloc::string::)?String>$")


def _presence_switches(x, type_re=None, of_local=None):
    """switches on the discriminant of an Option place: (block, none target, some target)"""
    out = []
    defs = mu.defs_of(x)
    for bi, bl in enumerate(x.blocks):
        t = bl["term"]
        if bl["cleanup"] or t["t"] != "switch":
            continue
        l = mu.op_local(t["discr"])
        d = mu.single_def(defs, l) if l is not None else None
        if d is None or d[1] == "term" or d[2]["k"] != "discr":
            continue
        pl = d[2]["pl"]
        if type_re is not None and not type_re.search(x.ty(pl["t"])["s"]):
            continue
        if of_local is not None and (pl["p"] or mu.origin_local(x, defs, pl["l"]) != of_local):
            continue
        arms = {int(v): tg for v, tg in t["arms"]}
        some = arms.get(1, t["otherwise"] if 1 not in arms else None)
        none = arms.get(0, t["otherwise"] if 0 not in arms else None)
        if some is None or none is None or some == none:
            continue
        out.append((bi, none, some))
    return out


def attribute_rules(ctx, report):
    """R3 / R4: the attribute writer (TXT from a map) and the attribute reader (TXT::attributes) agree on how an absent
    value differs from a present one: `key` alone means absent, `key=...` means present (possibly empty)."""
    prog = ctx.prog
    # ---- R3 writer
    w = ctx.must_find(report, "simple_dns::<TXT as TryFrom<HashMap<String, Option<String>>>>::try_from")
    if w is not None:
        report.count()
        found = []
        for x in [w] + mu.closures_of(prog, w):
            sws = _presence_switches(x, type_re=OPT_STRING)
            if sws:
                # a match with guards re-tests the same discriminant further down: the dominating test opens the arms
                domx = mu.dominators(x)
                sws.sort(key=lambda e: len(domx[e[0]]))
                places = {repr(mu.single_def(mu.defs_of(x), mu.op_local(x.blocks[e[0]]["term"]["discr"]))[2]["pl"]) for e in sws}
                if len(places) == 1 and all(sws[0][0] in domx[e[0]] for e in sws):
                    found.append((x, sws[0]))
                else:
                    found += [(x, e) for e in sws]
        if len(found) != 1:
            viol(report, "C15-R3", w, "no-presence-match", "the attribute writer does not branch exactly once on whether the value is "
                 "present (found %d such matches): cannot show `key` is written for an absent value and `key=value` for a present one" % len(found))
        else:
            x, (sw, none_t, some_t) = found[0]
            sinks = {bi for bi, t in mu.calls(x, r"(TXT::<'a>::|TXT::)add_char_string$")}
            if x is not w:
                sinks |= {bi for bi, bl in enumerate(x.blocks) if bl["term"]["t"] == "return"}
            eqb = {bi for bi, bl in enumerate(x.blocks) if not bl["cleanup"] and _has_eq_const(bl)}
            if not sinks:
                viol(report, "C15-R3", w, "no-sink", "the attribute writer does not add a character-string per entry")
            else:
                bad_some = mu.reachable_from(x, some_t, avoid={sw} | eqb) & sinks
                before_sink_none = mu.reachable_from(x, none_t, avoid={sw} | sinks)
                bad_none = before_sink_none & eqb
                if bad_some:
                    viol(report, "C15-R3", w, "present-without-eq", "a present value can reach the character-string at bb%s without a `=` "
                         "having been written: the reader maps a bare key to an absent value, so a present (e.g. empty) value is not "
                         "discovered as advertised" % sorted(bad_some))
                if bad_none:
                    viol(report, "C15-R3", w, "absent-with-eq", "an absent value is written with a `=` (bb%s): the reader maps `key=` to a "
                         "present empty value" % sorted(bad_none))
                if not bad_some and not bad_none:
                    report.nontriv("attribute writer: `=` exactly when the value is present")
                    report.sample({"rule": "R3", "writer": w.qname, "presence match": "bb%d" % sw, "blocks writing `=`": sorted(eqb),
                                   "sinks": sorted(sinks)})
    # ---- R4 reader
    r = ctx.must_find(report, "simple_dns::TXT::attributes")
    if r is not None:
        report.count()
        dom = mu.dominators(r)
        nexts = [(bi, t) for bi, t in mu.calls(r, r"SplitN<.*Iterator>::next$")]
        splitn = [(bi, t) for bi, t in mu.calls(r, r"<impl \[T\]>::splitn$")]
        okform = len(splitn) == 1 and len(nexts) == 2
        if okform:
            a2 = splitn[0][1]["args"][1]
            okform = a2.get("o") == "const" and str(a2["k"].get("v")) == "2"
            cl = [c for c in mu.closures_of(prog, r)]
            okform = okform and any(_has_eq_const(bl) for c in cl for bl in c.blocks if not bl["cleanup"])
        if not okform:
            viol(report, "C15-R4", r, "split-form", "the attribute reader does not split each entry once at the first `=` "
                 "(expected one splitn(2, |c| *c == b'=') with two next() calls; found %d splitn, %d next)" % (len(splitn), len(nexts)))
        else:
            nexts.sort(key=lambda e: len(dom[e[0]]))
            vb, vt = nexts[1]
            if nexts[0][0] not in dom[vb] or vt["dest"]["p"]:
                viol(report, "C15-R4", r, "split-form", "the two next() calls of the attribute reader are not in sequence")
            else:
                sws = _presence_switches(r, of_local=vt["dest"]["l"])
                sinks = {bi for bi, t in mu.calls(r, r"(Entry::<.*>::or_insert|HashMap::<.*>::insert|Entry::<.*>::or_insert_with)$")}
                rdefs = mu.defs_of(r)
                via_map = False
                if not sws and sinks:
                    # `next().map(decode)`: Option::map keeps presence by construction; its result must be what is stored
                    for mbi, mt in mu.calls(r, r"^std::option::Option::<T>::map$"):
                        if mu.origin_local(r, rdefs, mu.op_local(mt["args"][0])) != vt["dest"]["l"] or mt["dest"]["p"]:
                            continue
                        reach = mu.flow_forward(r, mt["dest"]["l"])          # through tuples / Some(..) / `?` of a helper inlined back
                        for sbi in sinks:
                            st_ = r.blocks[sbi]["term"]
                            for a in st_["args"][1:]:
                                la = mu.op_local(a)
                                if la is None:
                                    continue
                                if mu.origin_local(r, rdefs, la) == mt["dest"]["l"] or any(tl == la and not tp for (tl, tp) in reach):
                                    via_map = True
                if via_map:
                    report.nontriv("attribute reader: value presence carried by Option::map")
                    report.sample({"rule": "R4", "reader": r.qname, "presence": "second piece .map(decode) stored as is"})
                elif not sws or not sinks:
                    viol(report, "C15-R4", r, "no-presence-match", "the attribute reader does not branch on whether a second piece exists "
                         "(%d matches, %d stores)" % (len(sws), len(sinks)))
                else:
                    sw, none_t, some_t = sorted(sws, key=lambda e: len(dom[e[0]]))[0]
                    optagg = {}
                    for bi, si, s in mu.aggregates(r, "Option"):
                        if OPT_STRING.search(r.ty(s["pl"]["t"])["s"]):
                            optagg.setdefault(s["rv"]["vn"], set()).add(bi)
                    some_region = mu.reachable_from(r, some_t, avoid={sw} | sinks)
                    none_region = mu.reachable_from(r, none_t, avoid={sw} | sinks)
                    bad1 = some_region & optagg.get("None", set())
                    bad2 = none_region & optagg.get("Some", set())
                    if bad1:
                        viol(report, "C15-R4", r, "present-read-as-absent", "an entry with a `=` can be stored with an absent value (bb%s)" % sorted(bad1))
                    if bad2:
                        viol(report, "C15-R4", r, "absent-read-as-present", "an entry without `=` can be stored with a present value (bb%s)" % sorted(bad2))
                    if not (optagg.get("None") and optagg.get("Some")):
                        viol(report, "C15-R4", r, "no-value-built", "the attribute reader does not build both an absent and a present value")
                    elif not bad1 and not bad2:
                        report.nontriv("attribute reader: value present exactly when the entry has a `=`")
                        report.sample({"rule": "R4", "reader": r.qname, "presence match": "bb%d" % sw,
                                       "Some built in": sorted(optagg["Some"]), "None built in": sorted(optagg["None"])})


TEXTUAL = re.compile(r"(ToString>?::to_string|std::fmt::Display::fmt|as std::fmt::Display>::fmt|alloc::fmt::format|std::fmt::format|"
                     r"str::<impl str>::(ends_with|starts_with|contains|strip_suffix|strip_prefix|find|rfind|split\w*|rsplit\w*)|"
                     r"String::from_utf8\w*|str::from_utf8\w*)$")


def run(ctx):
    prog = ctx.prog
    report = Report("C15", ctx, "R1 the RData variants InstanceInformation::into_records builds (A, AAAA, SRV, TXT) are exactly the variants "
                    "from_records consumes, and each arm stores into the matching collection (A/AAAA -> ip_addresses, SRV.port -> ports, "
                    "TXT -> attributes); R2 in both back-ends every record handed to add_cached_resource passed the filter "
                    "name != own instance AND name.is_subdomain_of(service); R3 the attribute writer (TXT from a map) writes a `=` on every path of "
                    "a present value and on no path of an absent one; R4 the attribute reader (TXT::attributes) splits once at the first `=` "
                    "and stores a present value exactly when a second piece exists; R5 the escape / unescape functions convert no single byte to a char "
                    "(nor a char to a byte); R6 Name::is_subdomain_of / Name::without reach no rendering of a name as text and no string "
                    "search: the subdomain relation is decided label by label.")
    ir = ctx.must_find(report, "simple_mdns::InstanceInformation::into_records")
    fr = ctx.must_find(report, "simple_mdns::InstanceInformation::from_records")
    if ir is None or fr is None:
        return report.finish()
    built = rdata_variants_built(ctx, ir)
    # arms of from_records: switch on discriminant of resource.rdata
    radt = prog.adts["simple_dns::dns::rdata::RData"]
    vnames = [v["name"] for v in radt["variants"]]
    arms = {}
    for bi, bl in enumerate(fr.blocks):
        t = bl["term"]
        if bl["cleanup"] or t["t"] != "switch":
            continue
        d = t["discr"]
        l = mu.op_local(d)
        dd = mu.single_def(mu.defs_of(fr), l) if l is not None else None
        if dd is not None and dd[1] != "term" and dd[2]["k"] == "discr" and "RData" in fr.ty(dd[2]["pl"]["t"])["s"]:
            for v, tg in t["arms"]:
                arms[vnames[int(v)]] = tg
            other = t["otherwise"]
            sw_block = bi
    report.count()
    if not arms:
        viol(report, "C15-R1", fr, "no-match", "from_records no longer matches on the record's RData variant")
        return report.finish()
    consumed = set(arms)
    if built != consumed:
        viol(report, "C15-R1", fr, "variant-sets", "into_records builds %s records but from_records consumes %s: a record kind is dropped or "
             "never produced between the two directions" % (sorted(built), sorted(consumed)))
    else:
        report.nontriv("variant sets")
        report.sample({"into_records builds": sorted(built), "from_records consumes": sorted(consumed)})
    # each arm stores into the right collection: the insert/extend call in the arm takes &mut <local named ...>
    # collections by role: the local that ends up in the field of that name of the InstanceInformation built at the end
    defs = mu.defs_of(fr)
    names = {}
    roles = {}          # (base local of from_records, field path) -> field of the InstanceInformation it ends up in
    for _bi, _si, s0 in mu.aggregates(fr, "InstanceInformation"):
        for fname, op in zip(s0["rv"]["fields"], s0["rv"]["ops"]):
            l0 = mu.origin_local(fr, defs, mu.op_local(op))
            if l0 is not None:
                names[l0] = fname
            if op.get("o") in ("copy", "move"):
                loc = _value_loc(fr, defs, op["pl"])
                if loc is not None:
                    roles[loc] = fname
    # the aggregate built inside a closure (`name.map(|name| InstanceInformation { name, ip_addresses, .. })`): a captured
    # variable is the operand the closure was constructed with
    for bl in fr.blocks:
        for s0 in bl["stmts"]:
            if s0["s"] != "assign" or s0["rv"]["k"] != "agg" or s0["rv"].get("ak") != "closure":
                continue
            cb0 = prog.bodies.get(s0["rv"]["def"])
            if cb0 is None:
                continue
            cdefs = mu.defs_of(cb0)
            for _bi, _si, s1 in mu.aggregates(cb0, "InstanceInformation"):
                for fname, op in zip(s1["rv"]["fields"], s1["rv"]["ops"]):
                    if op.get("o") not in ("copy", "move"):
                        continue
                    cur = op["pl"]
                    for _ in range(6):
                        if cur["p"]:
                            break
                        d0 = mu.single_def(cdefs, cur["l"])
                        if d0 is None or d0[1] == "term" or d0[2].get("k") != "use" or d0[2]["op"].get("o") not in ("copy", "move"):
                            break
                        cur = d0[2]["op"]["pl"]
                    fs = [p0["f"] for p0 in cur["p"] if isinstance(p0, dict) and "f" in p0]
                    if cur["l"] == 1 and len(fs) == 1 and fs[0] < len(s0["rv"]["ops"]):
                        cap = s0["rv"]["ops"][fs[0]]
                        if cap.get("o") in ("copy", "move"):
                            loc = _value_loc(fr, defs, cap["pl"])
                            if loc is not None:
                                roles[loc] = fname
                    elif cur["p"]:
                        # a field of a captured struct (`move |name| Info { name, ip_addresses: collected.ip_addresses, .. }`):
                        # (closure local, path) -> the capture it was moved out of -> the operand of the closure aggregate
                        cl = mu.resolve_loc(cb0, cdefs, cur)
                        if cl is not None and cl[1]:
                            d1 = mu.single_def(cdefs, cl[0])
                            if d1 is not None and d1[1] != "term" and d1[2].get("k") == "use" and d1[2]["op"].get("o") in ("copy", "move"):
                                cp = d1[2]["op"]["pl"]
                                cfs = [p0["f"] for p0 in cp["p"] if isinstance(p0, dict) and "f" in p0]
                                if cp["l"] == 1 and len(cfs) == 1 and cfs[0] < len(s0["rv"]["ops"]):
                                    cap = s0["rv"]["ops"][cfs[0]]
                                    if cap.get("o") in ("copy", "move"):
                                        loc = _value_loc(fr, defs, cap["pl"])
                                        if loc is not None:
                                            roles[(loc[0], tuple(loc[1]) + tuple(cl[1]))] = fname
    if not names:
        names = fr.local_names()
    want = {"A": "ip_addresses", "AAAA": "ip_addresses", "SRV": "ports", "TXT": "attributes"}
    for vn, tg in sorted(arms.items()):
        report.count()
        # blocks of this arm only: everything reachable from the arm without re-entering the match, minus what the
        # `_ => {}` arm also reaches (the common continuation of the loop)
        region = mu.reachable_from(fr, tg, avoid={sw_block}) - mu.reachable_from(fr, other, avoid={sw_block})
        stores = []
        for bi in sorted(region):
            t = fr.blocks[bi]["term"]
            if t["t"] == "call" and t["callee"] and t["callee"]["name"] in ("insert", "extend", "push"):
                l = mu.op_local(t["args"][0])
                for st in mu.trace_back(fr, defs, l if l is not None else -1):
                    if st[2] != "term" and st[3].get("k") == "ref" and not st[3]["pl"]["p"]:
                        stores.append(roles.get((mu.origin_local(fr, defs, st[3]["pl"]["l"]), ())) or names.get(st[3]["pl"]["l"]))
                    elif st[2] != "term" and st[3].get("k") == "ref":
                        # a field of a local struct that carries the collections (`self.ip_addresses` of a helper inlined back)
                        loc = mu.resolve_loc(fr, defs, st[3]["pl"])
                        if loc is not None and loc[1]:
                            stores.append(roles.get(loc, "%s.%s" % (names.get(loc[0], "_%d" % loc[0]), ".".join(map(str, loc[1])))))
                            break
        if stores == [want.get(vn)]:
            report.nontriv("arm:" + vn)
        else:
            viol(report, "C15-R1", fr, "arm-" + vn, "the %s arm of from_records stores into %s, expected %s" % (vn, stores, want.get(vn)))
    # SRV arm reads .port ; A/AAAA arms read .address
    # ---- R2 ingest filters
    n = 0
    for q in ("simple_mdns::sync_discovery::service_discovery::add_response_to_resources",
              "simple_mdns::async_discovery::service_discovery::add_response_to_resources"):
        b = prog.find(q)
        report.count()
        if b is None:
            report.lost_anchor(q)
            continue
        fam = [b] + mu.closures_of(prog, b)
        filt = None
        for x in fam:
            for bi, t in mu.calls(x, r"^std::iter::Iterator::filter$"):
                l = mu.op_local(t["args"][1])
                d = mu.single_def(mu.defs_of(x), l) if l is not None else None
                if d is not None and d[1] != "term" and d[2].get("ak") == "closure":
                    filt = (x, prog.bodies.get(d[2]["def"]))
        if filt is None or filt[1] is None:
            viol(report, "C15-R2", b, "no-filter", "%s does not filter the received records" % b.qname)
            continue
        host, cb = filt
        try:
            bad = []
            for ne, sub in itertools.product((0, 1), repeat=2):
                seen = {}

                def f_ne(vals, ne=ne):
                    seen["ne"] = repr(vals[1])
                    return ne

                def f_sub(vals, sub=sub):
                    seen["sub"] = repr(vals[1])
                    return sub
                hooks = {("call", "std::cmp::PartialEq::ne"): f_ne, ("call", "simple_dns::Name::<'a>::is_subdomain_of"): f_sub}
                ev = Evaluator(prog, hooks)
                env = ("closure", cb.id, (Opaque("FULL_NAME"), Opaque("SERVICE_NAME")))
                r = ev.call(cb, [env, {"name": Opaque("record.name")}])
                if r != int(ne and sub):
                    bad.append("name!=own=%d, subdomain=%d -> %r" % (ne, sub, r))
            if bad:
                viol(report, "C15-R2", cb, "filter", "the ingest filter is not `name != own instance && name.is_subdomain_of(service)`: %s" % "; ".join(bad))
            else:
                report.nontriv("ingest filter " + q.split("::")[1])
                n += 1
        except NotATable as e:
            viol(report, "C15-R2", cb, "not-a-table", str(e))
        # every record stored (add_cached_resource) or reported (from_records) is an item of that filtered iterator: walking
        # the value back through the iterator pipeline, the verified filter is met before any adapter that merges a second
        # source (chain / zip / extend) and before the source itself
        adds = []
        for x in fam:
            adds += [(x, t, 1, "stored") for bi, t in mu.calls(x, r"ResourceRecordManager::<'a>::add_cached_resource$")]
            adds += [(x, t, 1, "reported") for bi, t in mu.calls(x, r"InstanceInformation::from_records$")]
        report.count()
        if len(adds) < 3:
            viol(report, "C15-R2", b, "no-insert", "%s no longer stores and reports received records (found %d uses, expected 3)" % (b.qname, len(adds)))
        for x, t, ai, what in adds:
            report.count()
            okf, why = behind_filter(x, t["args"][ai], cb.id)
            if okf:
                report.nontriv("%s %s bb-flow %s" % (what, q.split("::")[1], why))
            else:
                viol(report, "C15-R2", x, "unfiltered-" + what, "a record %s by %s does not come out of the own-instance / subdomain filter: %s" % (
                    what, b.qname, why))
    attribute_rules(ctx, report)
    # ---- R5 the escape / unescape pair works on characters: no byte of the name is turned into a char on its own
    # (`for b in name.bytes() { out.push(b as char) }` re-encodes every byte >= 0x80 as a Latin-1 character, so a name with a
    # non-ASCII character does not survive escape -> unescape) and no char is narrowed to a byte
    n_esc = 0
    for q in ("simple_mdns::instance_information::escaped_instance_name", "simple_mdns::instance_information::unescaped_instance_name"):
        eb = prog.find(q)
        report.count()
        if eb is None:
            report.lost_anchor(q)
            continue
        n_esc += 1
        for x in [eb] + mu.closures_of(prog, eb):
            for bl in x.blocks:
                if bl["cleanup"]:
                    continue
                for s in bl["stmts"]:
                    if s["s"] == "assign" and s["rv"]["k"] == "cast" and s["rv"]["ck"] == "IntToInt" and s["rv"]["op"]["o"] in ("copy", "move"):
                        src_t = x.ty(s["rv"]["op"]["pl"]["t"])
                        dst_t = x.ty(s["rv"]["t"])
                        if (src_t["k"] == "int" and dst_t["k"] == "char") or (src_t["k"] == "char" and dst_t["k"] == "int" and dst_t["w"] < 32):
                            report.violate(Violation(report.key(x.qname, "C15-R5", "byte-char", s["sp"].get("sn") or ""), "%s:%d" % (x.file, s["sp"]["l"]), "C15-R5",
                                                     "C15-R5: `%s` in %s converts between a single byte and a char: the bytes of a multi-byte "
                                                     "character are escaped / unescaped one by one, so escape followed by unescape does not return "
                                                     "a name containing a non-ASCII character" % (s["sp"].get("sn") or "cast", x.qname)))
        report.nontriv("escape works on chars: " + q.split("::")[-1])
    report.floor("escape / unescape functions scanned", n_esc, 2)
    # ---- R6: "strict subdomain of the watched service" is decided on labels
    # the textual form of a name does not keep its label boundaries (labels are joined by '.', and `my_http` ends with `http`), so
    # a verdict computed from rendered strings accepts names that are not subdomains
    n_sub = 0
    for q in ("simple_dns::Name::is_subdomain_of", "simple_dns::Name::without"):
        sb = ctx.must_find(report, q)
        if sb is None:
            continue
        n_sub += 1
        reach = ctx.cg.reachable([sb.id])
        for bid in reach:
            x = prog.bodies[bid]
            if x.crate != sb.crate:
                continue
            for bi, t in mu.calls(x, r"."):
                cd = t["callee"]["def"] if t.get("callee") else ""
                m = TEXTUAL.search(cd)
                if m and not x.blocks[bi]["cleanup"]:
                    report.violate(Violation(report.key(sb.qname, "C15-R6", "textual", m.group(0)), "%s:%d" % (x.file, t["sp"]["l"]), "C15-R6",
                                             "C15-R6: %s decides on the rendered text of a name (`%s` in %s): label boundaries are lost there, so a "
                                             "name whose label merely ends with the service's first label (`cam._my_http._tcp.local` for "
                                             "`_http._tcp.local`) passes as a subdomain and its records are reported" % (sb.qname, m.group(0), x.qname)))
        report.nontriv("subdomain relation on labels: " + q.split("::")[-1])
    report.floor("subdomain predicates scanned", n_sub, 2)
    report.floor("ingest filters verified", n, 2)
    report.sample({"rule": "R2", "filter": "aw.name != full_name && aw.name.is_subdomain_of(service_name)"})
    report.assumptions += ["set / attribute equality across the wire and the escape / unescape inverse are value-level and not decided"]
    return report.finish()
