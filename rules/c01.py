"""C01 Parsing untrusted bytes never panics, hangs or over-allocates."""
from common import Report
import panicrule


def roots(ctx, report):
    rs = []
    p = ctx.must_find(report, "simple_dns::Packet::parse")
    if p is not None:
        rs.append(p)
    peeks = []
    for b in ctx.prog.bodies.values():
        if b.crate == "simple_dns" and b.module.endswith("dns::header_buffer") and b.kind == "Fn" and b.vis == "pub":
            if any(b.local_ty(i)["s"] == "&[u8]" for i in range(1, b.argc + 1)):
                peeks.append(b)
    report.floor("header_buffer peeks", len(peeks), 8)
    return rs + sorted(peeks, key=lambda b: b.qname)


def run(ctx):
    report = Report("C01", ctx, "R1: every panic site (Assert terminators, catalogue of partial std functions, explicit panics) "
                    "reachable in the call graph from Packet::parse and the header_buffer peeks is discharged by the numeric "
                    "domain; R2: every reachable loop has a progress measure; R3: every allocation request is bounded. "
                    "An instance is non-trivial when its discharge needed a branch fact, summary or table (not A-OVF).")
    rs = roots(ctx, report)
    reach = panicrule.check_panics(ctx, report, rs, "C01-R1", "C01")
    import loops
    nloops = loops.check_loops(ctx, report, reach, "C01-R2")
    report.floor("loops reachable from the parser", nloops, 6)
    allocs = report.extra.get("sites_by_kind", {}).get("call:alloc", 0)
    report.floor("allocation requests reachable from the parser", allocs, 1)
    parse_impls = [b for b in ctx.prog.method_bodies("wire_format::WireFormat", "parse") if b.id in reach]
    report.floor("WireFormat::parse impls reachable", len(parse_impls), 43)
    report.assumptions += ["A-OVF: usize/u64 additions cannot wrap without >= 2^63 bytes of input",
                           "allocation failure and stack exhaustion out of scope (no recursion in the reachable graph: checked)",
                           "external callees not in tables/std_partial.tsv are total (listed in evidence)"]
    return report.finish()
