#!/usr/bin/env python3
"""Regenerates /verif/MANIFEST.json from the table below (one place to keep claims, notes and N/A reasons)."""
import json
import os

VERIF = os.path.dirname(os.path.dirname(os.path.abspath(__file__)))

TB = ("Trusted: rustc (nightly 1.97) type checking, trait resolution and MIR construction for the all-features dev "
      "configuration; tables/std_partial.tsv (std panic contracts); assumption A-OVF (64-bit unsigned additions cannot wrap "
      "without >= 2^63 bytes of input); allocation failure / stack exhaustion out of scope.")

CHECKS = {
    "C01": dict(
        technique="MIR abstract interpretation (linear-inequality domain with loop invariants) + call-graph reachability + loop-progress templates",
        text="Every panic-capable MIR construct (Assert terminators, catalogued partial std calls, explicit panics) reachable in the "
             "resolved call graph from Packet::parse and the header_buffer peeks is discharged for all inputs by a numeric abstract "
             "interpretation; every reachable loop has a progress measure (finite iterator, bounded strictly increasing cursor, or "
             "lexicographic pair); every allocation request is bounded by a constant <= 1024 elements or by the length of the input. This is a for-all-inputs argument over "
             "~340 program points, which is what the quantifier needs and sampling cannot give.",
        note=TB + " Decides: never panics, always terminates, allocation requests bounded. Does not measure the constants of the "
             "time/heap bound. Two audited sites are re-validated structurally on every run (tables/audited_sites.tsv).",
        ref="DESIGN.md section 4 C01"),
    "C12": dict(
        technique="call-graph reachability + MIR abstract interpretation of panic sites + constructor scan for fmt::Error",
        text="From every Debug/Display/Clone/Hash/PartialEq impl of the crate's exported types, every into_owned, the TXT attribute "
             "and string conversions, match_qtype/match_qclass and the Name queries (roots discovered from the type-checked "
             "program, floors on their number), no undischarged panic site is reachable, and no Display/Debug impl constructs "
             "fmt::Error itself (which would make to_string/format!/{:?} panic). The property is a panic-freedom statement over "
             "arbitrary byte contents, so a reachability + discharge argument decides it for all values.",
        note=TB + " from_utf8(..).unwrap()-style sites have no discharge rule (contents are arbitrary bytes). Allocation sizes "
             "are C01's concern and are not panic sites here.",
        ref="DESIGN.md section 4 C12"),
    "C14": dict(
        technique="cross-crate call-graph reachability + MIR abstract interpretation of panic sites + lock-region rule",
        text="From the receive loops and packet handlers of the responder, the service-discovery listener and the one-shot "
             "resolver (sync and async back-ends, coroutine state machines included) no undischarged panic site is reachable, "
             "across the crate boundary into simple_dns; no Display/Debug impl run by to_string() on received names constructs "
             "fmt::Error; LockResult::unwrap sites are discharged because no panic site is reachable from code that runs under a "
             "guard; every loop reached while handling one datagram (the receive / wait loops themselves excepted) has a progress measure. Decides the panic-freedom clause for every datagram and store state.",
        note=TB + " Does not decide 'any reply produced is a parseable DNS message' (C02/C03). Sites excluded by a stated "
             "precondition are listed in tables/assumed_preconditions.tsv and in the evidence; sites inside tokio::select! "
             "scaffolding are treated as external code; three async buf[..count] sites are audited with a structural predicate.",
        ref="DESIGN.md section 4 C14"),
    "C18": dict(
        technique="switch-table extraction from MIR + exhaustive evaluation over all 65536 codes",
        text="The integer<->enum conversions (TYPE, QTYPE, CLASS, QCLASS), RData::type_code, the parse dispatch and "
             "match_qtype/match_qclass are extracted from MIR as loop-free decision tables and evaluated by the rule engine over "
             "their whole finite domain: to(from(c)) = c for every 16-bit code, unsupported codes take the Err arm, every "
             "TYPE_CODE equals the IANA table (tables/iana.tsv), type_code(dispatch(t)) = t for every TYPE, and the matching table "
             "is ANY / own type / MAILB group / own class. Exhaustive over the finite domains, hence decides the statement.",
        note="Trusted: rustc's const evaluation and MIR construction; tables/iana.tsv (written from the IANA registry). A body "
             "that stops being table-shaped is reported (fail closed). IXFR/AXFR/MAILA arms are recorded, not judged.",
        ref="DESIGN.md section 4 C18"),
    "C08": dict(
        technique="decision-table extraction from MIR + exhaustive evaluation over all 65536 flags words + constant check + store scan",
        text="Header::parse, Header::get_flags and the eight header_buffer peeks are extracted as decision tables and evaluated, "
             "with contract models of the std/bitflags calls they make, for every one of the 65536 flags words: field offsets, "
             "bit-field placement, Z-bit rejection, and write-back of every named opcode/rcode/flag to the same bits; the mask "
             "and flag constants are compared with the RFC 1035 table; set_flags/remove_flags are shown to write only z_flags. "
             "For a 12-byte fixed layout this enumeration is the whole statement.",
        note="Trusted: rustc const evaluation / MIR; the modelled contracts of slice::get / index, try_into, from_be_bytes and "
             "bitflags (rules/hdrmodel.py); tables/header.tsv. Emission order of Header::write_to is checked under C04.",
        ref="DESIGN.md section 4 C08"),
    "C09": dict(
        technique="decision-table extraction + exhaustive evaluation of the OPT TTL bit layout + structural call checks",
        text="encode_ttl, extract_rcode_from_ttl and the version extraction of OPT::parse are evaluated as tables for every "
             "version x response code and every extended-rcode x header nibble against the RFC 6891 layout; the mask constants "
             "are compared with tables/edns.tsv; OPT::parse is shown to read CLASS@+2 as the payload size and TTL@+4; the writers "
             "emit header.opt_rr() exactly once, after every authority record, and ARCOUNT adds opt.is_some(); the header carries only the low four bits of the response code for every RCODE variant; the option loop of OPT::parse consumes the RDATA to its end; the parser lifts the OPT record by type; the CLASS slot "
             "written for the OPT record is udp_packet_size unchanged (writer table evaluated on 0, 0xFFFF, two common sizes and every single bit).",
        note="Trusted: as C08. Does not decide behaviour with several OPT records in the input.",
        ref="DESIGN.md section 4 C09"),
    "C11": dict(
        technique="table composition over the reader's image (exhaustive) + constructor scan of writer bodies",
        text="Decides that the writer is defined and code-preserving on everything the reader can produce: RCODE/OPCODE written "
             "back from every parsed value re-parse to the same value (16 nibbles, 4096 extended codes), the TYPE written for "
             "whatever the parse dispatch builds is the parsed TYPE for all 65536 codes, and no writer - nor any crate function reached from one - constructs an error "
             "of its own (LOC's version check mirrors the parser's). The parser lifts the OPT record from the end of the additional "
             "section at which both writers emit it (first <-> before the additional records). One genuine defect is recorded as a known finding "
             "(RCODE::Reserved).",
        note="Trusted: as C18. Does not decide field-value equality of parse(write(parse(x))) (value-level); length consistency "
             "(len() vs write_to) is checked under C04-R1.",
        ref="DESIGN.md section 4 C11"),
    "C16": dict(
        technique="field-origin analysis on extracted result terms (into_owned) + field-set comparison of Hash/PartialEq bodies + iteration-order taint",
        text="Every into_owned (51 functions and the record-building closures inside them) is linearised and each field / variant "
             "payload of its result is shown to originate in the same field / payload of self, with no constant or fresh origin, and no into_owned "
             "sorts, reverses, de-duplicates or removes elements of a collection it copies; "
             "for types with a hand-written Hash or PartialEq the hashed fields are a subset of the compared fields and whatever equality folds away (case, whitespace) the hash folds away too; no Hash impl "
             "feeds the hasher in HashSet/HashMap iteration order; Clone impls are derived. Structural for all values: an owned "
             "copy is field-for-field the original, hence equal, hence serialises identically.",
        note="Trusted: rustc MIR; std collection Clone/Eq/Hash impls lawful; derive(PartialEq, Hash) use one field list.",
        ref="DESIGN.md section 4 C16"),
    "C05": dict(
        technique="MIR abstract interpretation: cursor post-condition and symbolic read offsets",
        text="At every Ok return of RData::parse the numeric domain entails cursor_out = cursor_in + 10 + RDLENGTH (RDLENGTH being "
             "the big-endian 16-bit read at +8), the typed parser receives exactly the message prefix ending there, TYPE/CLASS/TTL/"
             "RDLENGTH and QTYPE/QCLASS are read at their fixed offsets after the name, parse_section pushes one element per "
             "iteration of a finite 0..count loop, and Packet::parse fills the four sections in wire order from QDCOUNT/ANCOUNT/NSCOUNT/ARCOUNT, touching them afterwards only to lift the OPT record out with an order-preserving removal. Decides the framing clause for all messages.",
        note=TB + " Does not decide equality of decoded field values with a reference decoder.",
        ref="DESIGN.md section 4 C05"),
    "C06": dict(
        technique="MIR abstract interpretation with trace partitioning on the pointer-following flag + lexicographic loop measure",
        text="On <Name as WireFormat>::parse: every pushed label has 1..=63 bytes, the expanded size at the Ok return is <= 254 + "
             "root byte, the loop has the measure (size grows | read cursor strictly decreases) so pointers go strictly backwards "
             "and cycles cannot succeed, every read is in bounds, and the caller cursor equals the read cursor until the first "
             "pointer, becomes pointer+1 there, is frozen afterwards and is returned +1; the pointer arm is entered only with a length byte >= 0xC0, the target is the 16-bit read masked with 0x3FFF, and the size counted against the limit grows by exactly 1 + label length per label.",
        note=TB + " That the label bytes equal a reference decoder's follows from R1-R6 by inspection, not mechanically.",
        ref="DESIGN.md section 4 C06"),
    "C04": dict(
        technique="symbolic writer-position tracking (exact byte counts) vs len() linear forms + structural emission-order, error-discipline and panic-reachability rules",
        text="For each of the 47 WireFormat impls the exact symbolic number of bytes write_to emits (writer-position model, loops as "
             "per-element sums, enum matches per variant) is compared with the value of len(), which is what the uncompressed RDLENGTH "
             "is computed from; the header counts are shown to be the lengths of the vectors written in order, plus opt.is_some(); "
             "both packet writers emit header, questions, answers, name_servers, OPT, additional in that order; the Vec-returning entry "
             "points only wrap the writer ones; no Result in the writer graph is dropped; no panic site is reachable from the four "
             "entry points; the RDLENGTH back-patch seeks to the captured positions.",
        note=TB + " A-SEEK: a writer's stream position advances by the bytes written and seek(Start(p)) moves it to p. TXT's len() "
             "returns a cached field: the sites that may construct a TXT or write the field form a closed, form-checked set. Byte equality of the entry points for arbitrary Write impls beyond R3/R6 "
             "is not decided. The u16 addition in write_header is an assumed precondition (within DNS size limits).",
        ref="DESIGN.md section 4 C04"),
    "C10": dict(
        technique="wire-layout extraction from MIR (symbolic read offsets / emitted byte sources) compared with an RFC schema table",
        text="For each of the 41 record types the consume sequence of parse (integer reads with width, byte order and offset "
             "relative to the cursor, byte reads, sub-parsers, raw / rest slices, repeats, destination fields) and the emit "
             "sequence of write_to (widths, byte order, source fields) are extracted from the numeric analysis and each compared "
             "with the RFC layout in tables/rdata_schema.tsv, so a symmetric mistake is caught; fixed-offset reads must be "
             "contiguous; the structural rejections (LOC version 0 on every Ok path, SVCB keys strictly increasing, NSEC windows "
             "strictly increasing) are entailed by the domain at the accepting site. Type codes are C18-R1.",
        note=TB + " tables/rdata_schema.tsv transcribes the RFCs. IPSECKEY is compared per gateway type (tag written = value "
             "tested); OPT without the header slots it borrows; TXT as rep{cstr}. Field semantics (e.g. LOC size encoding) and "
             "RFC test vectors are not decided.",
        ref="DESIGN.md section 4 C10"),
    "C02": dict(
        technique="wire-layout extraction from MIR: parse consume sequence vs write_to emit sequence (mirror), plus mask constants",
        text="For every WireFormat impl the sequence of wire elements parse consumes equals, item by item (kind, width, byte order, "
             "fixed offsets contiguous, destination field = source field), the sequence write_to emits; the resource-record "
             "envelope is assembled from ResourceRecord::parse and RData::parse; IPSECKEY's tag constants written equal the values "
             "tested; the cache-flush / unicast-response bit is written with the mask that parse tests and strips; integer fields keep their identity on both sides (no clamp / mask on one side only); every header the API can assemble (opcode x rcode x flag subsets) is written to a flags word that Header::parse accepts and decodes to the same values. This is the "
             "structural necessary condition of the round trip, for all packets.",
        note=TB + " Does not decide equality of values for all packets (a symmetric mistake is C10's job; SVCB map order, TXT "
             "cached size, empty TXT are value-level). Name is covered by C06/C03, the RData dispatch by C18-R3.",
        ref="DESIGN.md section 4 C02"),
    "C03": dict(
        technique="emit-sequence comparison of sibling writers (write_to vs write_compressed_to) + table-flow and offset-bound rules on Name::compress_append",
        text="Every write_compressed_to override (26) is shown to emit the same wire elements in the same order as the type's "
             "write_to, names (and containers of names) being the only items routed through the compressing writer; "
             "Name::compress_append emits per label either one big-endian 2-byte pointer and returns, or plain_append's length "
             "byte + bytes, then the root byte; exactly one compression table is created per message and every nested call "
             "passes the caller's own table; every recorded offset is entailed to be <= 0x3FFF, so pointers are well-formed for "
             "messages of any size; RDLENGTH is patched from captured positions (C04-R6). 'Never longer' follows from the shape.",
        note=TB + " A-SEEK. Does not decide that the parse of both outputs is equal for all packets (value-level).",
        ref="DESIGN.md section 4 C03"),
    "C07": dict(
        technique="call-graph reachability (who may compress) + emit sequences + numeric entailment on the recorded offsets",
        text="From tables/compression.tsv (the property's two lists): the names that must be compressed are routed to "
             "Name::compress_append by their type's write_compressed_to, the types whose RFCs forbid compression never reach it; "
             "the pointer is `offset | 0xC000` written as one big-endian u16 with offset <= 0x3FFF; a suffix is left out of the table only when its offset is >= 0x4000 (used where allowed); the table entry for a suffix "
             "is (writer position before the label's first byte, &labels[i..]); that table is created once per message, outside any loop. One genuine defect (offsets are absolute stream "
             "positions, not message-relative) is recorded as a known finding.",
        note=TB + " A-SEEK. 'Expands to the intended name' beyond the record-before-write clause is not decided.",
        ref="DESIGN.md section 4 C07"),
    "C13": dict(
        technique="decision-table evaluation of the filter closures + provenance (def-use) rules on build_reply's MIR + key-shape rule",
        text="PARTIAL. On simple_mdns::build_reply: the answer filter's decision table is match_qclass(question.qclass) AND "
             "match_qtype(question.qtype) (all 16 outcome combinations evaluated) and every pushed answer is a clone of an item "
             "drawn through it from get_domain_resources(&question.qname, authoritative(true)); additional records come only "
             "from the (A or AAAA) AND class filter over get_domain_resources(&srv.target, authoritative(false)); the reply is "
             "new_reply(query id), the unicast flag is assigned only under question.unicast_response, None iff no answer; trie "
             "keys carry a per-label length prefix (necessary for label-wise matching); registering a record stores it as "
             "Authoritative unconditionally; remove_resource_record removes the given record only (the owner's node only once its map "
             "is empty).",
        note="Does not decide that trie lookup is label-wise equality / subdomain for all stores (value-level); the match "
             "functions themselves are C18-R4. Trusted: rustc MIR, radix_trie's prefix semantics.",
        ref="DESIGN.md section 4 C13"),
    "C15": dict(
        technique="variant-set agreement between sibling functions + decision-table evaluation of the ingest filter closures + must-pass-through on the attribute writer / reader",
        text="PARTIAL. The RData variants InstanceInformation::into_records (and the conversion helpers it calls) builds are exactly "
             "those from_records consumes, each arm storing into the matching collection; in both back-ends the ingest filter "
             "evaluates to name != own instance AND name.is_subdomain_of(service) for all four outcome combinations, and every "
             "record stored or reported flows (through the iterator pipeline, coroutine-saved slots included) out of that filter, "
             "with no chain / merge met before it. The attribute writer (TXT from a map) writes a `=` on every path of a present "
             "value and on no path of an absent one, and the reader (TXT::attributes) splits once at the first `=` and stores a "
             "present value exactly on the paths where a second piece exists. The escape / unescape functions convert no single byte "
             "to a char (a necessary condition of the inverse). Name::is_subdomain_of / Name::without reach no textual rendering of a name "
             "and no string search: the subdomain relation is decided on labels.",
        note="Does not decide set / attribute value equality across the wire, which labels form the instance name, nor the escape / "
             "unescape inverse (value-level; two seeded changes of that kind are documented as not detected).",
        ref="DESIGN.md section 4 C15"),
    "C19": dict(
        technique="cast scan over the reachable functions + numeric entailment at CharacterString constructions + constant / shape rules",
        text="PARTIAL. No char is narrowed to a smaller integer in anything reachable from the TXT conversions (separator clause); "
             "every CharacterString construction outside into_owned is entailed to have data.len() <= 255 (length-limit clause); "
             "text is chunked with a constant size in 1..=254; String::try_from(TXT) makes one in-order pass over the strings "
             "appending each once and decodes the concatenation as a whole (byte-level losslessness of split / join); the "
             "attribute readers split at every ';' (long form) and only at the first '=' and at nothing else; the attribute-map "
             "writer matches on the Option itself (absent vs empty).",
        note="Does not decide the attribute-map round trip (absent vs empty, first-wins) - value-level. The out-of-crate half of "
             "the construction rule is the pub(crate) privacy of CharacterString::data, enforced by the compiler.",
        ref="DESIGN.md section 4 C19"),
    "C20": dict(
        technique="decision-table evaluation of match_filter and the filter constructors + path effects of add_cached_resource + read/removal site scans",
        text="PARTIAL. match_filter's table is Authoritative -> self.authoritative, Cached(e) -> self.cached AND e.expire_at > "
             "Instant::now() (operand order checked); cached() excludes authoritative records and authoritative(_) excludes cached "
             "ones; every record get_domain_resources yields went through that filter and the trie is read nowhere else but "
             "get_next_refresh; add_cached_resource passes ttl 1 under cache_flush else resource.ttl to ExpirationInfo::new, whose "
             "expire_at is now() + from_secs(ttl), on every path (no ExpirationInfo::new outside a cache_flush test), and inserts "
             "(replaces) the entry; add_authoritative_resource inserts unconditionally; records are removed only by "
             "remove_resource_record / clear.",
        note="Does not decide behaviour over real elapsed time (histories with a wall clock): no static argument bounds that.",
        ref="DESIGN.md section 4 C20"),
}

NA = {
    "C17": "extensional behaviour of a character-class grammar / splitter / suffix relation over all strings: its truth lives in "
           "values, not in the shape of the code; no sound static argument in reach decides it (panic-freedom of these functions is "
           "covered under C12)",
}

PENDING = "check under construction in this round (see DESIGN.md section 10); no verdict registered yet"


def main():
    props = [json.loads(l)["id"] for l in open(os.path.join(VERIF, "properties.jsonl"))]
    checks = []
    for p in props:
        c = CHECKS.get(p)
        if not c:
            continue
        checks.append({
            "property_id": p,
            "quick_cmd": "./check %s --tier quick" % p,
            "thorough_cmd": "./check %s --tier thorough" % p,
            "evidence_file": "/verif/evidence/%s.json" % p,
            "replay_cmd_template": "./check %s --explain {path}" % p,
            "engine": "sdlint",
            "level_claimed": {"category": "other", "text": c["text"], "design_ref": c["ref"]},
            "level_note": c["note"],
            "technique": c["technique"],
        })
    na = []
    for p in props:
        if p in CHECKS:
            continue
        na.append({"property_id": p, "reason": NA.get(p, PENDING)})
    m = {
        "version": 1,
        "setup_cmd": "cd /verif/driver && CARGO_NET_OFFLINE=true cargo +nightly build --release --offline",
        "hooks": {
            "guard": "simple_dns_verif",
            "enable": "none needed: the analysis reads private items through the compiler (rustc_private driver); no hook code exists in /repo",
            "baseline_off_cmd": "cd /repo && cargo test --workspace --no-fail-fast --offline",
            "source_commits": [],
            "add_only": True,
        },
        "engines": [{"name": "sdlint", "path": "driver/ + rules/", "serves_properties": sorted(CHECKS),
                     "kind_free_text": "rustc_private driver exporting callee-resolved MIR as facts (cargo +nightly check with "
                                       "RUSTC_WORKSPACE_WRAPPER); python rule engine: call graph, numeric abstract interpretation, "
                                       "loop progress, structural rules, table evaluation"}],
        "checks": checks,
        "not_applicable": na,
        "notes": "All checks are static: /repo is type-checked by the driver, never executed. Exit 2 = infrastructure error "
                 "(tree does not compile / driver missing). Functions that are not in tables/functions.tsv (helpers extracted by a "
                 "later refactoring) are inlined into their callers before analysis. Tested both ways: seeded/ (205 property-breaking "
                 "changes, RESULTS.json) and neutral/ (behaviour-preserving refactorings that must stay silent).",
    }
    json.dump(m, open(os.path.join(VERIF, "MANIFEST.json"), "w"), indent=1)


if __name__ == "__main__":
    main()
