"""C06 Domain names are decoded exactly as RFC 1035 prescribes (structural clauses on Name::parse)."""
from common import Report, Violation, where_of
from lin import Lin, entails
import mirutil as mu
import loops
import panicrule


def viol(report, rule, b, kind, msg, sn=""):
    report.violate(Violation(report.key(b.qname, rule, kind, sn), "%s:%d" % (b.file, b.line), rule, "%s: %s" % (rule, msg)))


def _is_phi(sym):
    return sym.startswith("phi(")


def _classify(v, var):
    """shape of a value flowing into loop variable `var` at a join"""
    if v.is_const():
        return ("const", v.c)
    d = v.d()
    if len(d) == 1 and v.c == 0:
        (s, k), = d.items()
        if k == 1 and (_is_phi(s) or s.endswith("@entry")):
            return ("same", s)
        if k == 1:
            return ("sym", s)
    elems = [s for s, k in d.items() if s.startswith("elem(*_1[") and k == 1]
    rest = [s for s, k in d.items() if not s.startswith("elem(*_1[")]
    if len(elems) == 1 and v.c == 1 and all(d[s] == 1 and (_is_phi(s) or s.endswith("@entry")) for s in rest) and len(rest) <= 1:
        return ("label", elems[0])
    return ("other", repr(v))


def dispatch_rules(ctx, report, b, an, pp, ns):
    # ---- R7: state at the 16-bit read of the pointer arm
    rd = [r for r in an.reads if r["width"] == 2 and r["root"] == "_1"]
    rd_syms = sorted(set(r["sym"] for r in rd))
    report.count()
    if len(rd_syms) != 1 or any(r["order"] != "BE" for r in rd):
        viol(report, "C06-R8", b, "pointer-read", "Name::parse does not read the pointer as one 16-bit big-endian value (reads: %s)" % (
            [(r["sym"], r["width"], r["order"]) for r in an.reads],))
        return
    rbi = rd[0]["bi"]
    # the test on the length byte is made right after the byte is read; joins between it and the 16-bit read rename the
    # cursor, so the fact is looked for at the nearest dominator of the read from which the cursor is not reassigned
    dom = mu.dominators(b)
    lps, _irr, _d = loops.natural_loops(b)
    heads = set(lps)
    preds = b.compute_preds()
    # the cursor is a local `_N`, or a field `_N.f` of a local struct
    ppl = int(pp[1:].split(".")[0])
    ppf = pp.split(".")[1:]

    def writes_cursor(s2):
        if s2["s"] != "assign":
            return False
        if not ppf:
            return s2["pl"]["l"] == ppl and not s2["pl"]["p"]
        fs = [str(p0["n"]) for p0 in s2["pl"]["p"] if isinstance(p0, dict) and "f" in p0]
        return fs == ppf
    n7 = 0
    found = None
    for D in sorted(dom[rbi], key=lambda x: -len(dom[x])):
        if D in heads:
            break
        # blocks on paths D -> rbi (not going round the loop)
        fwd = mu.reachable_from(b, D, avoid=heads)
        back = set()
        stack = [rbi]
        while stack:
            x = stack.pop()
            if x in back or x in heads:
                continue
            back.add(x)
            if x != D:
                stack.extend(preds[x])
        region = fwd & back
        reassigned = any(writes_cursor(s2) for x in region for s2 in b.blocks[x]["stmts"])
        if reassigned:
            continue
        nodes = [n for n in an.entry if n[0] == D]
        if not nodes:
            continue
        allok = True
        for n in nodes:
            st = an.entry[n]
            cur = st.store.get(pp)
            if cur is None or cur[0] != "lin" or not entails(st.facts, an.iv, Lin.const(192) - Lin.sym("elem(*_1[%r])" % (cur[1],)), an.depth):
                allok = False
        if allok:
            found = (D, len(nodes))
            break
    report.count()
    if found:
        n7 = found[1]
        report.nontriv("R7 bb%d" % found[0])
        report.sample({"rule": "R7", "at": "bb%d (dominates the 16-bit pointer read at bb%d)" % (found[0], rbi),
                       "entailed": "length byte >= 0xC0 in all %d analysis states" % found[1]})
    else:
        viol(report, "C06-R7", b, "pointer-arm", "the pointer arm is reachable with a length byte that is not known to be >= 0xC0: bytes "
             "0x40-0xBF (reserved label types 01 and 10) would be followed as compression pointers instead of being rejected", "pointer-arm")
    report.floor("pointer-arm states examined", n7, 1 if not report.violations else 0)
    # ---- R8 / R9: what flows into the read cursor and the size counter at the loop joins
    n_ptr = n_lab = 0
    for n, (phis, incoming, back) in sorted(an.join_info.items(), key=lambda x: repr(x[0])):
        for var, rule in ((pp, "C06-R8"), (ns, "C06-R9")):
            if var not in phis:
                continue
            name, vs = phis[var]
            for v in vs:
                report.count()
                kind = _classify(v, var)
                if kind[0] == "same" or (kind[0] == "const" and var == ns and kind[1] == 0):
                    continue
                if kind[0] == "label":
                    n_lab += 1
                    continue
                if var == pp and kind[0] == "sym" and kind[1] in an.bitand:
                    x, m = an.bitand[kind[1]]
                    if x == Lin.sym(rd_syms[0]) and m == 0x3FFF:
                        n_ptr += 1
                        report.nontriv("R8 target")
                        continue
                    viol(report, rule, b, "pointer-target", "the pointer target is (%r & %#06x); RFC 1035 4.1.4 defines it as the low 14 bits "
                         "(0x3FFF) of the two bytes at the cursor" % (x, m), "pointer-target")
                    continue
                if var == pp:
                    viol(report, rule, b, "cursor-move", "the read cursor is set to %s: only `cursor + 1 + label length` and `16-bit read & "
                         "0x3FFF` are decoding steps of RFC 1035" % kind[1], "cursor-move")
                else:
                    viol(report, rule, b, "size-accounting", "the size counted against the 255-byte limit becomes %s: it must grow by exactly "
                         "1 + label length per label and not change when a pointer is followed (a legal 255-byte name reached through "
                         "pointers would be rejected, or an over-long one accepted)" % kind[1], "size-accounting")
    report.floor("pointer targets examined", n_ptr, 1 if not report.violations else 0)
    report.floor("label steps examined", n_lab, 2 if not report.violations else 0)
    report.sample({"rule": "R7-R9", "pointer": "%s & 0x3FFF under length byte >= 0xC0" % rd_syms[0], "label": "cursor, size += 1 + length"})


def _op_key(b, defs, op):
    """store key of the loop variable an operand reads: a local `_N`, or a field of a local struct `_N.field` (the loop state of
    Name::parse gathered into a private struct and reached through `&mut self` of helpers inlined back)"""
    cur = op
    for _ in range(8):
        if cur.get("o") not in ("copy", "move"):
            return None
        pl = cur["pl"]
        if not pl["p"]:
            d = mu.single_def(defs, pl["l"])
            if d is None or d[1] == "term" or d[2].get("k") != "use":
                return "_%d" % pl["l"]
            cur = d[2]["op"]
            continue
        if any(not (p == "d" or (isinstance(p, dict) and "f" in p)) for p in pl["p"]):
            return None
        names = [str(p["n"]) for p in pl["p"] if isinstance(p, dict) and "f" in p]
        base = mu.ref_root(b, defs, pl["l"]) if pl["p"][0] == "d" else pl["l"]
        if base is None or not names:
            return None
        return "_%d.%s" % (base, ".".join(names))
    return None


def run(ctx):
    prog = ctx.prog
    report = Report("C06", ctx, "On <Name as WireFormat>::parse, from the numeric analysis of its MIR: R1 every label pushed has 1..=63 "
                    "bytes; R2 at the Ok return the expanded size is <= 254 (+ root byte); R3/R4 the loop has the lexicographic "
                    "measure (size grows | read cursor strictly decreases): pointers go strictly backwards and cycles terminate in "
                    "an error; R5 every read is in bounds; R6 while no pointer has been followed the caller cursor equals the read "
                    "cursor, the first pointer sets it to pointer+1, afterwards it is not touched, and Ok returns cursor+1.")
    b = ctx.must_find(report, "simple_dns::<Name as WireFormat>::parse")
    if b is None:
        return report.finish()
    an = ctx.whole.results[b.id]
    # the loop variables are found by role, not by name:
    #   flag - the constant-assigned boolean the analysis partitions on (helper-return flags added by the inliner excluded)
    #   pp   - the loop-carried cursor that indexes the length byte read from `data`
    #   ns   - the loop-carried counter compared with the 255-byte limit
    import re as _re
    dbg = b.local_names()
    real_modes = [m for m in an.modes if isinstance(m, str) or not str(dbg.get(m, "")).startswith("inlined_helper_failed")]
    report.count()
    if len(real_modes) != 1:
        viol(report, "C06-R6", b, "mode", "Name::parse no longer has exactly one constant-assigned boolean tracking whether a pointer was "
             "followed (candidates: %s)" % [m if isinstance(m, str) else dbg.get(m) for m in real_modes])
        return report.finish()
    flag = real_modes[0]
    fi = an.modes.index(flag)

    def fmode(n):
        return n[1][0][fi]

    def success_partition(n):
        return all(v in (0, None) for i, v in enumerate(n[1][0]) if i != fi)
    cands = set()
    for e in an.elems:
        if e["root"] != "_1":
            continue
        for sname in e["off"].syms():
            m = _re.search(r"\):(_\d+(?:\.\w+)*)$", sname)
            if m:
                cands.add(m.group(1))
    if len(cands) != 1:
        report.lost_anchor("the read cursor of Name::parse (loop-carried index of the length byte; candidates %s)" % sorted(cands))
        return report.finish()
    pp = list(cands)[0]
    defs0 = mu.defs_of(b)
    loopvars = set()
    for n, (phis, incoming, back) in an.join_info.items():
        loopvars |= set(k for k in phis if _re.match(r"^_\d+(\.\w+)*$", k))
    nsc = set()
    for bl in b.blocks:
        if bl["cleanup"]:
            continue
        for st0 in bl["stmts"]:
            if st0["s"] == "assign" and st0["rv"]["k"] == "bin" and st0["rv"]["op"] in ("Ge", "Gt", "Lt", "Le", "Eq", "Ne"):
                a0, b0 = st0["rv"]["a"], st0["rv"]["b"]
                for x, y in ((a0, b0), (b0, a0)):
                    if y["o"] == "const" and y["k"].get("c") == "int" and int(y["k"]["v"]) in (254, 255, 256):
                        k0 = _op_key(b, defs0, x)
                        if k0 is not None and k0 in loopvars and k0 != pp:
                            nsc.add(k0)
    if len(nsc) != 1:
        report.lost_anchor("the size counter of Name::parse (loop-carried value compared with the 255-byte limit; candidates %s)" % sorted(nsc))
        return report.finish()
    ns = list(nsc)[0]
    # ---- R5 bounds (panic rule restricted to this body)
    for o in an.obligations:
        report.count()
        if o.ok:
            if o.why != "A-OVF":
                report.nontriv("ob bb%d" % o.bi)
        else:
            viol(report, "C06-R5", b, o.kind, "%s at `%s` is not discharged: %s" % (o.kind, o.snippet, o.detail), o.snippet)
    # ---- R1 label length at every push
    pushes = [e for e in an.events_all if e.get("callee") and e["callee"]["def"] == "std::vec::Vec::<T, A>::push"]
    slices = [s for s in an.slices if s["kind"] == "range"]
    report.floor("labels.push sites", len(pushes), 1)
    label_slices = []
    for s in slices:
        # the label slice starts one past the length byte at the read cursor
        label_slices.append(s)
    for e in pushes:
        st = e["st"]
        report.count()
        cand = [s for s in label_slices if s["bi"] < e["bi"] or True]
        okk = False
        for s in cand:
            ln = s["len"]
            if len(ln.t) == 1 and ln.t[0][0].startswith("elem(") and ln.c == 0:
                if entails(st.facts, an.iv, ln - 63, an.depth) and entails(st.facts, an.iv, Lin.const(1) - ln, an.depth):
                    okk = True
        if okk:
            report.nontriv("push bb%d" % e["bi"])
            report.sample({"site": e["sp"].get("sn"), "entailed": "1 <= label length <= 63 at the push"})
        else:
            viol(report, "C06-R1", b, "label-length", "at `%s` the label length byte is not known to be within 1..=63 (label types 01/10 "
                 "and over-long labels must be errors)" % (e["sp"].get("sn") or "labels.push"), e["sp"].get("sn") or "")
    # ---- R2 total size at Ok
    oks = [(bi, st, v) for bi, st, v in an.ok_points if v is not None and v[0] == "adt" and v[2] == "Ok"]
    report.floor("Ok returns of Name::parse", len(oks), 1)
    for bi, st, v in oks:
        report.count()
        sz = st.store.get(ns)
        if sz is not None and sz[0] == "lin" and entails(st.facts, an.iv, sz[1] - 254, an.depth):
            report.nontriv("size bb%d" % bi)
        else:
            viol(report, "C06-R2", b, "name-size", "at the Ok return the accumulated name size %s is not bounded by 254: names longer than "
                 "255 bytes on the wire would be accepted" % (sz[1] if sz else "untracked"), "ok bb%d" % bi)
        # R6(d): the caller cursor returned is (cursor at the terminating zero label) + 1, within the data
        out = st.store.get("(*_2)")
        ln = st.store.get("len:_1")
        report.count()
        if out is None or ln is None or not entails(st.facts, an.iv, out[1] - ln[1], an.depth):
            viol(report, "C06-R6", b, "cursor-end", "the caller cursor at the Ok return (%s) is not shown to stay within the data" % (out,), "ok bb%d" % bi)
        else:
            report.nontriv("cursor end bb%d" % bi)
    # ---- R3/R4 loop measure
    lps, irr, dom = loops.natural_loops(b)
    report.count()
    if len(lps) != 1:
        viol(report, "C06-R4", b, "loop", "Name::parse has %d loops, expected one" % len(lps))
    else:
        h, info = list(lps.items())[0]
        tpl, why = loops.check_loop(ctx, b, an, h, info, dom)
        if tpl == "T3" and ("(%s, %s)" % (ns, pp)) in why:
            report.nontriv("measure")
            report.sample({"loop": "bb%d" % h, "measure": why})
        else:
            viol(report, "C06-R4", b, "loop-measure", "the decoding loop lacks the (name_size grows | pointer_position strictly decreases) "
                 "measure: pointers are not shown to go strictly backwards / cycles to terminate (%s: %s)" % (tpl, why))
        # ---- R6 partitions
        heads = {n: v for n, v in an.join_info.items() if n[0] == h}
        part0 = [n for n in heads if fmode(n) == 0 and n[1][1] == "s" and success_partition(n)]
        part1 = [n for n in heads if fmode(n) == 1 and n[1][1] == "s" and success_partition(n)]
        report.count(2)
        if not part0 or not part1:
            viol(report, "C06-R6", b, "partitions", "expected a not-following and a following partition of the loop head (got %s)" % sorted(heads))
        else:
            n0 = part0[0]
            st0 = an.entry[n0]
            a, c = st0.store.get("(*_2)"), st0.store.get(pp)
            if a and c and a[0] == "lin" and c[0] == "lin" and entails(st0.facts, an.iv, a[1] - c[1], 2) and entails(st0.facts, an.iv, c[1] - a[1], 2):
                report.nontriv("R6 equal")
                report.sample({"partition": "no pointer followed yet", "invariant": "caller cursor == read cursor at the loop head"})
            else:
                viol(report, "C06-R6", b, "cursor-sync", "before the first pointer the caller cursor is not shown equal to the read cursor at the loop head")
            n1 = part1[0]
            phis, incoming, back = an.join_info[n1]
            moved = False
            if "(*_2)" in phis:
                name, vs = phis["(*_2)"]
                for i, S in enumerate(incoming):
                    if back[i]:
                        v = vs[i]
                        phi = Lin.sym(name)
                        if not (v == phi or (entails(S.facts, an.iv, v - phi, 2) and entails(S.facts, an.iv, phi - v, 2))):
                            moved = True
            if moved:
                viol(report, "C06-R6", b, "cursor-frozen", "after a pointer has been followed the caller cursor is still advanced inside the loop")
            else:
                report.nontriv("R6 frozen")
            # the transition: entering the following partition sets cursor = pointer position + 1
            ent = [n for n in an.entry if fmode(n) == 1 and n[1][1] == "e" and success_partition(n)]
            okt = False
            for n in ent:
                st = an.entry[n]
                a, c = st.store.get("(*_2)"), st.store.get(pp)
                if a and c and a[0] == "lin" and c[0] == "lin" and entails(st.facts, an.iv, a[1] - c[1] - 1, 2) and entails(st.facts, an.iv, c[1] + 1 - a[1], 2):
                    okt = True
            if not okt:
                # the read cursor may be dead right after the transition (it was copied into a helper's parameter): the same
                # relation as seen from the head of the following partition - its caller cursor is the read cursor of the
                # not-following head (the iteration that met the first pointer) plus one
                st1 = an.entry[n1]
                a1, c0 = st1.store.get("(*_2)"), st0.store.get(pp)
                if a1 and c0 and a1[0] == "lin" and c0[0] == "lin" and entails(st1.facts, an.iv, a1[1] - c0[1] - 1, 2) and \
                        entails(st1.facts, an.iv, c0[1] + 1 - a1[1], 2):
                    okt = True
            report.count()
            if okt:
                report.nontriv("R6 transition")
            else:
                viol(report, "C06-R6", b, "cursor-transition", "at the first pointer the caller cursor is not shown to become pointer position + 1")
    dispatch_rules(ctx, report, b, an, pp, ns)
    report.assumptions += ["A-OVF", "that the label bytes equal a reference decoder's for all inputs follows from R1-R6 by inspection, not mechanically"]
    return report.finish()
