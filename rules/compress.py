"""Shared extraction for C03 / C07: what each write_compressed_to emits, and the shape of Name::compress_append."""
import re
import layout
import mirutil as mu
from lin import Lin, entails


def compressed_sequences(ctx):
    """type -> (plain sequence, compressed sequence with `cname` for names written through the compressing writer)"""
    prog, W = ctx.prog, ctx.whole
    out = {}
    wt = {b.impl["self_s"].split("::")[-1].split("<")[0]: b for b in prog.method_bodies("wire_format::WireFormat", "write_to")}
    wc = {b.impl["self_s"].split("::")[-1].split("<")[0]: b for b in prog.method_bodies("wire_format::WireFormat", "write_compressed_to")}
    for tn, b in wt.items():
        plain = layout.normalise(layout.write_sequence_inlined(ctx, W.results[b.id]), "write", mirror=True)
        cb = wc.get(tn)
        comp = None
        if cb is not None:
            comp = compressed_items(ctx, W.results[cb.id])
        out[tn] = (plain, comp, b, cb)
    return out


def compressed_items(ctx, an, depth=0):
    """like layout.write_sequence_inlined, but names written by write_compressed_to / compress_append become `cname`"""
    seq = layout.describe_write(ctx, an)
    order = {bi: i for i, bi in enumerate(an.rpo())}
    nested = sorted([e for e in an.emits if e["kind"] == "nested"], key=lambda x: order.get(x["bi"], 0))
    out = []
    ni = 0
    for x in seq:
        if x.startswith(("name", "cstr", "sub:")) and ni < len(nested):
            e = nested[ni]
            ni += 1
            if x.startswith("sub:") and e["fn"] not in ("write_to", "write_compressed_to") and depth < 3:
                hb = an.b.prog.bodies.get(e["callee_id"])
                han = ctx.whole.results.get(hb.id) if hb is not None else None
                if han is not None:
                    out.extend(compressed_items(ctx, han, depth + 1))
                    continue
            if e.get("compressed"):
                x = "~" + x
        out.append(x)
    return layout.normalise(out, "write", mirror=True)


def name_refs_flow(ctx):
    """every nested compressed write passes the caller's own name_refs parameter; returns list of (body, problem)"""
    prog = ctx.prog
    bad = []
    n = 0
    for b in prog.method_bodies("wire_format::WireFormat", "write_compressed_to") + [prog.find("simple_dns::Name::compress_append")]:
        if b is None:
            continue
        defs = mu.defs_of(b)
        for bi, t in mu.calls(b, r"write_compressed_to$|compress_append$"):
            if len(t["args"]) < 3:
                continue
            n += 1
            l = mu.op_local(t["args"][2])
            root = None
            for st in mu.trace_back(b, defs, l if l is not None else -1):
                if st[2] != "term" and st[3].get("k") == "ref":
                    root = st[3]["pl"]["l"]
            if root != 3 and l is not None:
                # through a captured variable of a closure / a field of a helper struct
                root = mu.ref_root(b, defs, l)
            if root != 3:
                bad.append((b, "the compression table passed at `%s` is not the function's own name_refs parameter" % (t["sp"].get("sn") or "")))
    return n, bad


def table_insertions(aca):
    """insertions into the compression table in compress_append, whichever map API is used:
       [(event, recorded value (Lin or None), key value)]  for `entry(key) .. Vacant(e) => e.insert(v)` and for `map.insert(key, v)`"""
    out = []
    ent = [e for e in aca.events if e.get("callee") and e["callee"]["def"].endswith("HashMap::<K, V, S, A>::entry")]
    for e in aca.events:
        c = e.get("callee")
        if not c:
            continue
        if c["def"].endswith("VacantEntry::<'a, K, V, A>::insert"):
            v = e["vals"][1] if len(e["vals"]) > 1 else None
            key = ent[0]["vals"][1] if len(ent) == 1 and len(ent[0]["vals"]) > 1 else None
            out.append((e, v[1] if v is not None and v[0] == "lin" else None, key))
        elif c["def"].endswith("HashMap::<K, V, S, A>::insert"):
            v = e["vals"][2] if len(e["vals"]) > 2 else None
            key = e["vals"][1] if len(e["vals"]) > 1 else None
            out.append((e, v[1] if v is not None and v[0] == "lin" else None, key))
    return out
