"""A1: call graph over resolved callees (over-approximating), reachability, paths."""
import re
from collections import deque

# traits whose local impls an *external generic* callee may invoke on the local types it is
# instantiated with (protocol traits).  Debug/Display only through the fmt family.
PROTOCOL_TRAITS = {
    "std::clone::Clone": ["clone", "clone_from"],
    "std::cmp::PartialEq": ["eq", "ne"],
    "std::cmp::PartialOrd": ["partial_cmp", "lt", "le", "gt", "ge"],
    "std::cmp::Ord": ["cmp", "max", "min"],
    "std::hash::Hash": ["hash", "hash_slice"],
    "std::default::Default": ["default"],
    "std::ops::Deref": ["deref"],
    "std::ops::DerefMut": ["deref_mut"],
    "std::ops::Drop": ["drop"],
    "std::borrow::ToOwned": ["to_owned"],
    "radix_trie::TrieKey": ["encode_bytes", "encode"],
}
TOPLEVEL_TRAITS = {
    "std::iter::Iterator": ["next", "size_hint", "fold", "nth"],
    "std::iter::IntoIterator": ["into_iter"],
    "std::iter::FromIterator": ["from_iter"],
    "std::iter::Extend": ["extend"],
    "std::future::Future": ["poll"],
    "std::convert::AsRef": ["as_ref"],
    "std::borrow::Borrow": ["borrow"],
}
FMT_TRAITS = {
    "std::fmt::Debug": ["fmt"],
    "std::fmt::Display": ["fmt"],
    "std::fmt::LowerHex": ["fmt"],
    "std::fmt::UpperHex": ["fmt"],
    "std::fmt::Binary": ["fmt"],
    "std::fmt::Octal": ["fmt"],
}
FMT_FAMILY = re.compile(
    r"(^core::fmt::|^std::fmt::|^alloc::fmt::|::fmt::rt::|ToString>::to_string|std::string::ToString|"
    r"^std::fmt::format|^log::|panic_fmt|::unwrap$|::expect$|::unwrap_err$|::expect_err$|assert_failed)")


class CallGraph:
    def __init__(self, prog):
        self.prog = prog
        self.edges = {}      # body id -> list of (callee body id, site) ; site = (block index, reason)
        self.ext_calls = {}  # body id -> list of (callee def, block index)
        self.indirect = []   # (body id, block index) calls through fn pointers
        self.generic_ext = []  # external generic callees instantiated with the caller's own type parameters
        # index local impl methods: (trait path, method) -> [(self type string, body)]
        self.trait_methods = {}
        for b in prog.bodies.values():
            if b.kind in ("Closure", "Promoted") or not b.impl or not b.impl["trait"]:
                continue
            self.trait_methods.setdefault((b.impl["trait"], b.name), []).append(b)
        self.local_adts = set(prog.adts.keys())
        self._adts_in_type_cache = {}
        self.callsites = {}    # callee body id -> [(caller body, callee record)]
        self.deferred = []     # trait calls through a type parameter: (body, callee record, block, param index)
        self.cha_fallback = []
        for b in prog.bodies.values():
            self._build(b)
        for (b, c, bi, idx) in self.deferred:
            self._resolve_deferred(b, c, bi, idx)

    # ------------------------------------------------------------------ type helpers
    def adts_in_type(self, crate, tix, seen=None):
        """(adt names, closure/fn body ids) appearing structurally in a type"""
        key = (crate, tix)
        if key in self._adts_in_type_cache:
            return self._adts_in_type_cache[key]
        adts, fns = set(), set()
        stack = [tix]
        visited = set()
        types = self.prog.types[crate]
        while stack:
            i = stack.pop()
            if i in visited:
                continue
            visited.add(i)
            t = types[i]
            k = t["k"]
            if k == "adt":
                adts.add(t["name"])
                stack.extend(t["args"])
            elif k in ("ref", "ptr", "slice", "array"):
                stack.append(t["t"])
            elif k == "tuple":
                stack.extend(t["ts"])
            elif k in ("closure", "coroutine"):
                fns.add(t["def"])
            elif k == "fndef":
                fns.add(t["def"])
                stack.extend(t["args"])
        # fields of local ADTs are reachable too (a Vec<ResourceRecord> clone clones Name, RData, ...)
        self._adts_in_type_cache[key] = (adts, fns)
        return adts, fns

    def _self_adt(self, b):
        """name of the ADT an impl's self type denotes (peeling references), or None"""
        t = b.ty(b.impl["self"])
        while t["k"] in ("ref", "ptr"):
            t = b.ty(t["t"])
        if t["k"] == "adt":
            return t["name"]
        return None

    def impl_bodies_for(self, trait, methods, adt_names):
        out = []
        for m in methods:
            for b in self.trait_methods.get((trait, m), []):
                a = self._self_adt(b)
                if a is None or _same_adt(a, adt_names):
                    out.append(b)
        return out

    # ------------------------------------------------------------------ edge construction
    def _add(self, b, target_id, bi, why):
        if target_id in self.prog.bodies:
            self.edges.setdefault(b.id, []).append((target_id, bi, why))

    def _instantiations(self, body, idx, depth=0, seen=None):
        """concrete ADT names substituted for the idx-th type parameter of `body` by its callers;
        None when some caller is unknown / still generic beyond the search depth (fall back to CHA)"""
        seen = seen or set()
        root = self.prog.bodies.get(body.root, body)
        if (root.id, idx) in seen or depth > 4:
            return None
        seen.add((root.id, idx))
        sites = self.callsites.get(root.id, [])
        if not sites:
            return None
        out = set()
        for caller, c in sites:
            if idx >= len(c["targs"]):
                return None
            t = self.prog.types[caller.crate][c["targs"][idx]]
            if t["k"] == "adt":
                out.add(t["name"])
            elif t["k"] == "param":
                gens = caller.j.get("generics", [])
                if t["name"] not in gens:
                    return None
                sub = self._instantiations(caller, gens.index(t["name"]), depth + 1, seen)
                if sub is None:
                    return None
                out |= sub
            else:
                return None
        return out

    def _resolve_deferred(self, b, c, bi, idx):
        inst = self._instantiations(b, idx)
        cands = self.trait_methods.get((c["trait"], c["name"]), [])
        if inst is None:
            self.cha_fallback.append((b.id, bi, c["def"]))
            for tb in cands:
                self._add(b, tb.id, bi, "cha")
            return
        for tb in cands:
            a = self._self_adt(tb)
            if a is not None and _same_adt(a, inst):
                self._add(b, tb.id, bi, "instantiated " + a.split("::")[-1])

    def _build(self, b):
        prog = self.prog
        self.edges.setdefault(b.id, [])
        for bi, bl in enumerate(b.blocks):
            if bl["cleanup"]:
                continue
            # closure / coroutine creation, fn items passed as values, unsizing to dyn
            for s in bl["stmts"]:
                if s["s"] != "assign":
                    continue
                rv = s["rv"]
                if rv["k"] == "agg" and rv["ak"] in ("closure", "coroutine", "coroutine_closure"):
                    self._add(b, rv["def"], bi, "creates")
                if rv["k"] == "cast" and rv.get("pc", "").startswith("Unsize"):
                    tgt = b.ty(rv["t"])["s"]
                    m = re.search(r"dyn ([A-Za-z_:0-9]+)", tgt)
                    if m:
                        trait = m.group(1)
                        src_t = _op_type(b, rv["op"])
                        if src_t is not None:
                            adts, fns = self.adts_in_type(b.crate, src_t)
                            adts = self._close_fields(adts)
                            for (tr, meth), bodies in self.trait_methods.items():
                                if tr == trait:
                                    for tb in bodies:
                                        a = self._self_adt(tb)
                                        if a is None or _same_adt(a, adts):
                                            self._add(b, tb.id, bi, "dyn " + trait)
                for op in _rv_operands(rv):
                    if op["o"] == "const" and op["k"]["c"] == "fn":
                        c = op["k"]["callee"]
                        self._callee_edges(b, c, bi, "fn-value")
            t = bl["term"]
            if t["t"] != "call":
                continue
            c = t["callee"]
            if c is None:
                self.indirect.append((b.id, bi))
                continue
            self._callee_edges(b, c, bi, "call")
            for a in t["args"]:
                if a["o"] == "const" and a["k"]["c"] == "fn":
                    self._callee_edges(b, a["k"]["callee"], bi, "fn-arg")

    def _close_fields(self, adts):
        """local ADTs' field types: derived impls recurse into them"""
        out = set(adts)
        work = list(adts)
        while work:
            a = work.pop()
            ad = self._lookup_adt(a)
            if ad is None:
                continue
            for v in ad["variants"]:
                for f in v["fields"]:
                    sub, _ = self.adts_in_type(ad["crate"], f["t"])
                    for s in sub:
                        if s not in out:
                            out.add(s)
                            work.append(s)
        return out

    def _lookup_adt(self, name):
        ad = self.prog.adts.get(name)
        if ad is not None:
            return ad
        # cross-crate spelling: simple_dns::Name (re-export path) vs simple_dns::dns::name::Name
        last = name.split("::")[-1]
        crate = name.split("::")[0]
        cands = [a for n, a in self.prog.adts.items() if n.split("::")[-1] == last and n.split("::")[0] == crate]
        return cands[0] if len(cands) == 1 else None

    def _callee_edges(self, b, c, bi, why):
        prog = self.prog
        cid = c["id"]
        if c["resolved"] and cid in prog.bodies:
            self._add(b, cid, bi, why)
            self.callsites.setdefault(cid, []).append((b, c))
            # closures in the type args still run inside local generic callees: they are reached
            # through the callee's own unresolved FnMut calls; add them conservatively here
            for tix in c["targs"]:
                _, fns = self.adts_in_type(b.crate, tix)
                for f in fns:
                    self._add(b, f, bi, "closure-arg")
            return
        if c["resolved"] and cid in prog.bodies:
            pass
        if not c["resolved"] and c["trait_item"] and c["targs"]:
            t0 = prog.types[b.crate][c["targs"][0]]
            gens = b.j.get("generics", [])
            if t0["k"] == "param" and t0["name"] in gens and (c["trait"], c["name"]) in self.trait_methods:
                self.deferred.append((b, c, bi, gens.index(t0["name"])))
                return
        if not c["resolved"] and c["trait_item"] and c["targs"] and (c["trait"], c["name"]) in self.trait_methods:
            # the Self type is concrete (a generic helper inlined back with its caller's type arguments): that type's impl
            t0 = prog.types[b.crate][c["targs"][0]]
            if t0["k"] == "adt":
                hit = False
                for tb in self.trait_methods.get((c["trait"], c["name"]), []):
                    a = self._self_adt(tb)
                    if a is not None and _same_adt(a, {t0["name"]}):
                        self._add(b, tb.id, bi, "instantiated " + a.split("::")[-1])
                        hit = True
                if hit:
                    return
        if not c["resolved"] and c["trait_item"]:
            # class-hierarchy approximation over local impls of the trait method
            hit = False
            for tb in self.trait_methods.get((c["trait"], c["name"]), []):
                self._add(b, tb.id, bi, "cha")
                hit = True
            # provided (default) method body of a local trait
            if cid in prog.bodies:
                self._add(b, cid, bi, "default-method")
                hit = True
            if hit and c["crate"] in prog.crates:
                return
        if cid in prog.bodies:
            self._add(b, cid, bi, why)
            return
        # external callee: closures / fn items among its type arguments run inside it; trait impls it may
        # invoke on workspace types were derived by the driver from its elaborated where-clauses (may_call)
        self.ext_calls.setdefault(b.id, []).append((c["def"], bi))
        fns = set()
        generic = False
        for tix in c["targs"]:
            _, f = self.adts_in_type(b.crate, tix)
            fns |= f
            if self._has_param(b.crate, tix):
                generic = True
        for f in fns:
            self._add(b, f, bi, "closure-arg")
        for m in c.get("may_call", []):
            self._add(b, m, bi, "bound")
        if generic:
            self.generic_ext.append((b.id, bi, c["def"]))

    def _has_param(self, crate, tix):
        types = self.prog.types[crate]
        stack, seen = [tix], set()
        while stack:
            i = stack.pop()
            if i in seen:
                continue
            seen.add(i)
            t = types[i]
            if t["k"] in ("param", "alias"):
                return True
            if t["k"] == "adt":
                stack.extend(t["args"])
            elif t["k"] in ("ref", "ptr", "slice", "array"):
                stack.append(t["t"])
            elif t["k"] == "tuple":
                stack.extend(t["ts"])
        return False

    def _conversion_edges(self, b, c, bi):
        """Into/TryInto/ToString/fmt::Argument adaptors: resolve to the one local impl they forward to"""
        from facts import short_ty
        d = c["def"]
        types = self.prog.types[b.crate]
        targs = [types[i]["s"] for i in c["targs"]]
        pairs = None
        if d == "<T as std::convert::Into<U>>::into" and len(targs) >= 2:
            pairs = ("std::convert::From", "from", targs[1], targs[0])
        elif d == "<T as std::convert::TryInto<U>>::try_into" and len(targs) >= 2:
            pairs = ("std::convert::TryFrom", "try_from", targs[1], targs[0])
        elif d == "<T as std::string::ToString>::to_string" and targs:
            pairs = ("std::fmt::Display", "fmt", targs[0], None)
        elif d.startswith("core::fmt::rt::Argument::<'_>::new_") and targs:
            tr = {"display": "Display", "debug": "Debug", "lower_hex": "LowerHex", "upper_hex": "UpperHex",
                  "binary": "Binary", "octal": "Octal"}.get(d.split("new_")[-1])
            if tr:
                pairs = ("std::fmt::" + tr, "fmt", targs[0], None)
        if pairs is None:
            return False
        trait, meth, self_s, arg_s = pairs
        want_self = short_ty(self_s).lstrip("&")
        hit = False
        for tb in self.trait_methods.get((trait, meth), []):
            if short_ty(tb.impl["self_s"]).lstrip("&") != want_self:
                continue
            if arg_s is not None:
                tf = short_ty(tb.impl["trait_full"] or "")
                m = tf[tf.find("<") + 1: tf.rfind(">")] if "<" in tf else ""
                if m != short_ty(arg_s):
                    continue
            self._add(b, tb.id, bi, "adaptor " + trait.split("::")[-1])
            hit = True
        if not hit and arg_s is None:
            # formatting a std container of local types (Vec<Label>, Option<OPT>, ...): fall back to deep protocol edges
            return False
        return True

    # ------------------------------------------------------------------ queries
    def reachable(self, roots):
        """map body id -> (parent id, block index, why) for everything reachable from roots"""
        seen = {}
        dq = deque()
        for r in roots:
            if r in self.prog.bodies and r not in seen:
                seen[r] = None
                dq.append(r)
        while dq:
            x = dq.popleft()
            for (y, bi, why) in self.edges.get(x, []):
                if y not in seen:
                    seen[y] = (x, bi, why)
                    dq.append(y)
        return seen

    def path_to(self, seen, target):
        path = []
        cur = target
        while cur is not None:
            path.append(cur)
            p = seen.get(cur)
            cur = p[0] if p else None
        return list(reversed(path))

    def sccs(self, nodes):
        """Tarjan over the sub-graph induced by nodes; returns list of components"""
        index = {}
        low = {}
        onstack = set()
        stack = []
        out = []
        counter = [0]
        nodes = set(nodes)

        def strong(v):
            work = [(v, iter([e[0] for e in self.edges.get(v, []) if e[0] in nodes]))]
            index[v] = low[v] = counter[0]
            counter[0] += 1
            stack.append(v)
            onstack.add(v)
            while work:
                v, it = work[-1]
                adv = False
                for w in it:
                    if w not in index:
                        index[w] = low[w] = counter[0]
                        counter[0] += 1
                        stack.append(w)
                        onstack.add(w)
                        work.append((w, iter([e[0] for e in self.edges.get(w, []) if e[0] in nodes])))
                        adv = True
                        break
                    elif w in onstack:
                        low[v] = min(low[v], index[w])
                if adv:
                    continue
                work.pop()
                if work:
                    u = work[-1][0]
                    low[u] = min(low[u], low[v])
                if low[v] == index[v]:
                    comp = []
                    while True:
                        w = stack.pop()
                        onstack.discard(w)
                        comp.append(w)
                        if w == v:
                            break
                    out.append(comp)

        for n in sorted(nodes):
            if n not in index:
                strong(n)
        return out


def _same_adt(a, names):
    if a in names:
        return True
    # cross-crate re-export spelling: compare crate + final segment
    ca, la = a.split("::")[0], a.split("::")[-1]
    for n in names:
        if n.split("::")[0] == ca and n.split("::")[-1] == la:
            return True
    return False


def _op_type(b, op):
    if op["o"] in ("copy", "move"):
        return op["pl"]["t"]
    if op["o"] == "const":
        return op["k"]["t"]
    return None


def _rv_operands(rv):
    k = rv["k"]
    if k in ("use", "cast", "repeat"):
        return [rv["op"]]
    if k == "bin":
        return [rv["a"], rv["b"]]
    if k == "un":
        return [rv["a"]]
    if k == "agg":
        return rv["ops"]
    return []
