"""A5: loop progress.  Every natural loop must match one of
  T1  finite-iterator loop: a call of Iterator::next on a finite std iterator created outside the loop
      dominates every back edge;
  T2  bounded cursor: a loop-carried integer strictly increases along every back edge and stays bounded by the
      length of an (immutable) input slice;
  T3  lexicographic pair (u, d): along every back edge u grows, or u is unchanged and the unsigned d shrinks;
      u is bounded by a constant on every back edge."""
import re
import mirutil as mu
from lin import Lin, entails, ub, lb
from zone import subst

FINITE_ITER = re.compile(
    r"^(&mut )?(std::slice::(Iter|IterMut|Chunks|ChunksExact|Windows|Split|SplitN|RSplitN)<|std::ops::Range<|std::ops::RangeInclusive<|"
    r"std::vec::IntoIter<|std::vec::Drain<|std::str::(Chars|CharIndices|Bytes|Split|SplitN|Lines)<|"
    r"std::collections::(hash_map|hash_set|btree_map|btree_set|vec_deque)::(Iter|IterMut|IntoIter|Keys|Values|Drain)<|"
    r"std::option::(Iter|IntoIter)<|std::array::IntoIter<|radix_trie::iter::|radix_trie::)")
ADAPTORS = re.compile(r"^(&mut )?std::iter::(Enumerate|Rev|Zip|Map|Filter|FilterMap|Chain|Skip|Take|Cloned|Copied|FlatMap|Flatten|"
                      r"Peekable|Inspect|TakeWhile|SkipWhile|StepBy|Fuse)<(.*)>$")


def split_top(s):
    out, depth, cur = [], 0, ""
    for ch in s:
        if ch in "<([":
            depth += 1
        elif ch in ">)]":
            depth -= 1
        if ch == "," and depth == 0:
            out.append(cur.strip())
            cur = ""
        else:
            cur += ch
    if cur.strip():
        out.append(cur.strip())
    return out


def finite_iter_type(s):
    s = s.strip()
    if FINITE_ITER.match(s):
        return True
    m = ADAPTORS.match(s)
    if m:
        parts = split_top(m.group(3))
        name = m.group(2)
        n_iters = 2 if name in ("Zip", "Chain") else 1
        its = parts[:n_iters]
        if name == "Zip":
            return any(finite_iter_type(p) for p in its)
        if name in ("FlatMap", "Flatten"):
            # finite outer iterator; inner iterators are produced by a closure / IntoIterator of finite std types
            return finite_iter_type(its[0])
        return all(finite_iter_type(p) for p in its)
    return False


def natural_loops(b):
    dom = mu.dominators(b)
    preds = b.compute_preds()
    loops = {}
    irreducible = []
    for u in mu.noncleanup_blocks(b):
        for h in b.successors(u):
            if h in dom.get(u, ()):
                body = {h}
                stack = [u]
                while stack:
                    x = stack.pop()
                    if x in body:
                        continue
                    body.add(x)
                    stack.extend(p for p in preds[x] if p in dom)
                loops.setdefault(h, {"latches": [], "body": set()})
                loops[h]["latches"].append(u)
                loops[h]["body"] |= body
    # cycles that are not natural loops
    # (detected as back edges of a DFS whose target does not dominate the source)
    color = {}
    stack = [(0, iter(b.successors(0)))]
    color[0] = 1
    while stack:
        n, it = stack[-1]
        adv = False
        for s in it:
            if b.blocks[s]["cleanup"]:
                continue
            c = color.get(s, 0)
            if c == 0:
                color[s] = 1
                stack.append((s, iter(b.successors(s))))
                adv = True
                break
            if c == 1 and s not in dom.get(n, ()):
                irreducible.append((n, s))
        if not adv:
            color[n] = 2
            stack.pop()
    return loops, irreducible, dom


FINITE_COLLECTION = re.compile(r"^(&(mut )?)?(std::vec::Vec<|std::collections::(HashMap|HashSet|BTreeMap|BTreeSet|VecDeque)<|\[.*\]$|std::option::Option<)")


def _concrete_source_type(b, next_term, depth=12):
    """type of the value a generic iterator was made from, walking back from `next(&mut it)` through `it = into_iter(x)`, moves and
    reborrows to the first local whose declared type is concrete; a std collection counts as its (finite) iterator"""
    defs = mu.defs_of(b)
    cur = mu.op_local(next_term["args"][0])
    for _ in range(depth):
        if cur is None:
            return None
        ts = b.local_ty(cur)["s"]
        if "impl " not in ts and " as " not in ts:
            inner = ts[5:] if ts.startswith("&mut ") else ts[1:] if ts.startswith("&") else ts
            if FINITE_COLLECTION.match(inner):
                return "std::vec::IntoIter<>"        # into_iter of a finite collection
            return inner
        d = mu.single_def(defs, cur)
        if d is None:
            return None
        if d[1] == "term":
            tt = d[2]
            nm = tt["callee"]["def"] if tt.get("callee") else ""
            if nm.endswith("IntoIterator>::into_iter") or nm.endswith("IntoIterator::into_iter"):
                cur = mu.op_local(tt["args"][0])
                continue
            return None
        rv = d[2]
        if rv.get("k") == "ref" and (not rv["pl"]["p"] or rv["pl"]["p"] == ["d"]):
            cur = rv["pl"]["l"]
            continue
        if rv.get("k") == "use" and rv["op"].get("o") in ("copy", "move") and not rv["op"]["pl"]["p"]:
            cur = rv["op"]["pl"]["l"]
            continue
        return None
    return None


def check_loop(ctx, b, an, h, info, dom):
    """returns (template or None, explanation)"""
    body, latches = info["body"], info["latches"]
    # ---- T1
    for bi in sorted(body):
        t = b.blocks[bi]["term"]
        if t["t"] != "call" or not t["callee"]:
            continue
        c = t["callee"]
        if c["name"] != "next" or not (c["trait"] or "").endswith("iter::Iterator"):
            continue
        if not all(bi in dom[l] for l in latches):
            continue
        recv_t = b.ty(c["targs"][0])["s"] if c["targs"] else ""
        if not finite_iter_type(recv_t):
            # a generic iterator (`impl IntoIterator` parameter of a helper inlined back): what it was created from in this body
            recv_t = _concrete_source_type(b, t) or recv_t
        if not finite_iter_type(recv_t):
            # a local iterator type: terminates if its own `next` does and it is exhausted eventually; not assumed
            continue
        # the iterator must not be re-created inside the loop
        a0 = t["args"][0]
        defs = mu.defs_of(b)
        root = None
        if a0["o"] in ("copy", "move"):
            steps = mu.trace_back(b, defs, a0["pl"]["l"])
            for st in steps:
                if st[2] != "term" and st[3].get("k") == "ref":
                    root = st[3]["pl"]["l"]
        if root is None:
            continue
        redefined = any(d[0] in body for d in defs.get(root, []))
        if redefined:
            continue
        return "T1", "Iterator::next on %s (iterator _%d created outside the loop) dominates every back edge" % (recv_t, root)
    # ---- T2 / T3 from the numeric analysis' loop-carried values
    if an is None:
        return None, "body not analysed"
    heads = [n for n in an.join_info if n[0] == h]
    if not heads:
        return None, "no loop-carried integer value at the loop head"
    per_key = {}     # key -> list of relations to the previous value, one per (back edge, path through inner joins)
    n_back = 0
    bounds_ok = {}
    all_keys = set()
    for n in heads:
        all_keys |= set(an.join_info[n][0].keys())
    owner = {}       # phi symbol -> (join node, key)
    for jn, (phis, incoming, back) in an.join_info.items():
        for k, (name, vs) in phis.items():
            owner[name] = (jn, k)

    def expand(S, vals, head, depth=0):
        """split a back-edge state along the incoming edges of joins inside the loop body (trace partitioning)"""
        if depth > 5:
            return [(S, vals)]
        for k, v in vals.items():
            for sname in v.syms():
                o = owner.get(sname)
                if o is None or o[0] == head or o[0][0] not in body or o[0][0] == h:
                    continue
                jn = o[0]
                phis_j, inc_j, back_j = an.join_info[jn]
                out = []
                for i, Sj in enumerate(inc_j):
                    if back_j[i]:
                        continue
                    nv = {}
                    for k2, v2 in vals.items():
                        w = v2
                        for kk, (nm, vs) in phis_j.items():
                            if nm in w.syms():
                                w = subst(w, nm, vs[i])
                        nv[k2] = w
                    out.extend(expand(Sj, nv, head, depth + 1))
                return out[:64] if out else [(S, vals)]
        return [(S, vals)]

    for n in heads:
        phis, incoming, back = an.join_info[n]
        for i, S in enumerate(incoming):
            if not back[i]:
                continue
            vals0 = {k: vs[i] for k, (name, vs) in phis.items()}
            for (S2, vals) in expand(S, vals0, n):
                n_back += 1
                for k in all_keys:
                    if k not in phis:
                        per_key.setdefault(k, []).append("same")
                        bounds_ok.setdefault(k, []).append(False)
                        continue
                    name = phis[k][0]
                    phi = Lin.sym(name)
                    v = vals[k]
                    if entails(S2.facts, an.iv, phi + 1 - v, an.depth):
                        rel = "inc"
                    elif v == phi or (entails(S2.facts, an.iv, phi - v, 2) and entails(S2.facts, an.iv, v - phi, 2)):
                        rel = "same"
                    elif entails(S2.facts, an.iv, v + 1 - phi, an.depth) and an.iv.get(name, (-1, 0))[0] >= 0:
                        rel = "dec"
                    else:
                        rel = "?"
                    per_key.setdefault(k, []).append(rel)
                    okb = False
                    for k2, v2 in S2.store.items():
                        if (k2.startswith("len:_") or k2.startswith("len:(*_1).")) and v2[0] == "lin" and len(v2[1].t) == 1 and \
                                entails(S2.facts, an.iv, v - v2[1] - 70000, an.depth):
                            okb = "len(%s)" % k2[4:]
                    if not okb and entails(S2.facts, an.iv, v - 1000000, an.depth):
                        okb = "constant"
                    bounds_ok.setdefault(k, []).append(okb)
    if n_back == 0:
        return None, "loop has no analysed back edge"
    for k, rels in per_key.items():
        if len(rels) == n_back and all(r == "inc" for r in rels) and all(bounds_ok[k]):
            return "T2", "%s strictly increases on all %d back edges and is bounded by %s" % (k, n_back, bounds_ok[k][0])
    for ku, ru in per_key.items():
        if len(ru) != n_back or not all(b for b, r in zip(bounds_ok[ku], ru) if r == "inc"):
            continue
        for kd, rd in per_key.items():
            if kd == ku or len(rd) != n_back:
                continue
            if all(a == "inc" or (a == "same" and d == "dec") for a, d in zip(ru, rd)) and any(a == "inc" for a in ru):
                return "T3", "(%s, %s): %s grows (bounded by %s) or stays while %s (unsigned) shrinks, on all %d back edges" % (
                    ku, kd, ku, bounds_ok[ku][0], kd, n_back)
    return None, "no progress measure found; loop-carried values: %s" % {k: v for k, v in list(per_key.items())[:6]}


def check_loops(ctx, report, reach, rule):
    from common import Violation
    prog = ctx.prog
    n = 0
    by_t = {}
    for bid in sorted(reach):
        b = prog.bodies[bid]
        loops, irreducible, dom = natural_loops(b)
        for (u, s) in irreducible:
            report.violate(Violation(report.key(b.qname, rule, "irreducible-cycle", "bb%d" % s), "%s:%d" % (b.file, b.line), rule,
                                     "control-flow cycle that is not a natural loop in %s" % b.qname))
        an = ctx.whole.results.get(bid)
        for h, info in sorted(loops.items()):
            n += 1
            report.count()
            tpl, why = check_loop(ctx, b, an, h, info, dom)
            sp = b.blocks[h]["term"].get("sp") or b.j["span"]
            snippet = ""
            for bi in sorted(info["body"]):
                t = b.blocks[bi]["term"]
                if t.get("sp") and t["sp"].get("l"):
                    snippet = "loop at line offset %d" % (t["sp"]["l"] - b.line)
                    break
            if tpl is None:
                key = report.key(b.qname, rule, "loop", "loop#%d" % sorted(loops).index(h))
                report.violate(Violation(key, "%s:%d" % (b.file, sp.get("l", b.line)), rule,
                                         "%s: loop with head bb%d in %s has no termination argument: %s" % (rule, h, b.qname, why),
                                         [prog.bodies[x].qname for x in ctx.cg.path_to(reach, bid)]))
            else:
                by_t[tpl] = by_t.get(tpl, 0) + 1
                report.nontriv("%s#loop%d" % (b.qname, h))
                report.sample({"fn": b.qname, "loop_head": "bb%d" % h, "template": tpl, "argument": why}, cap=40)
    report.extra["loops"] = {"total": n, "by_template": by_t}
    return n
