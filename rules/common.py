"""Shared infrastructure of the rule engine: context loading, reports, keys, known findings,
audited / assumed tables, evidence writer."""
import json
import os
import re
import sys
import time

import facts
import callgraph
import panics

VERIF = facts.VERIF
KNOWN = os.path.join(VERIF, "known_findings.txt")


class Ctx:
    def __init__(self, tier="quick", config="all"):
        config = os.environ.get("SDLINT_CONFIG", config)
        self.tier = tier
        self.t0 = time.time()
        self.fdir, self.sha, self.reused = facts.build_facts(config)
        self.prog = facts.Program(self.fdir)
        self.cg = callgraph.CallGraph(self.prog)
        self.whole = panics.Whole(self.prog, self.cg, depth=5 if tier == "thorough" else 3)
        self.config = config

    # anchors -----------------------------------------------------------------
    def find(self, qname):
        return self.prog.find(qname)

    def must_find(self, report, qname):
        b = self.prog.find(qname)
        if b is None:
            report.lost_anchor(qname)
        return b


def load_known():
    known = {}
    fixed = []
    if os.path.exists(KNOWN):
        for line in open(KNOWN):
            line = line.rstrip("\n")
            if line.startswith("known:"):
                m = re.match(r"known: property=(C\d+) key=(.*?) :: (.*)$", line)
                if m:
                    known.setdefault(m.group(1), {})[m.group(2)] = m.group(3)
            elif line.startswith("fixed:"):
                fixed.append(line)
    return known, fixed


def load_tsv(name):
    rows = []
    p = os.path.join(VERIF, "tables", name)
    if os.path.exists(p):
        for line in open(p):
            line = line.rstrip("\n")
            if not line or line.startswith("#"):
                continue
            rows.append(line.split("\t"))
    return rows


class Violation:
    def __init__(self, key, where, rule, message, path=None, extra=None):
        self.key = key
        self.where = where
        self.rule = rule
        self.message = message
        self.path = path or []
        self.extra = extra or {}


class Report:
    def __init__(self, prop, ctx, rule_text):
        self.prop = prop
        self.ctx = ctx
        self.rule_text = rule_text
        self.violations = []
        self.known_hits = []
        self.instances = 0          # rule instances examined
        self.nontrivial = set()     # distinct instances that needed a non-trivial argument
        self.samples = []
        self.extra = {}
        self.assumptions = []
        self.floors = []            # (name, measured, floor)
        self.notes = []
        self.obligations = 0
        self.discharged = 0
        self._ord = {}
        known, _ = load_known()
        self.known = known.get(prop, {})

    # ---- keys
    def key(self, qname, rule, kind, snippet):
        snippet = " ".join((snippet or "").split())
        base = "%s | %s | %s | %s" % (qname, rule, kind, snippet)
        n = self._ord.get(base, 0)
        self._ord[base] = n + 1
        return "%s | %d" % (base, n)

    # ---- recording
    def count(self, n=1):
        self.instances += n

    def nontriv(self, ident):
        self.nontrivial.add(ident)

    def sample(self, s, cap=12):
        if len(self.samples) < cap:
            self.samples.append(s)

    def floor(self, name, measured, floor):
        self.floors.append((name, measured, floor))
        if measured < floor:
            self.violate(Violation("floor | %s" % name, "-", "floor",
                                   "rule %s examined %d instances, below the hand-confirmed floor %d: "
                                   "the rule has lost (part of) its subject" % (name, measured, floor)))

    def lost_anchor(self, what):
        self.violate(Violation("anchor | %s" % what, "-", "anchor",
                               "anchor %s cannot be found in the analysed program: the rule has lost its subject" % what))

    def violate(self, v):
        if v.key in self.known:
            self.known_hits.append((v, self.known[v.key]))
        else:
            self.violations.append(v)

    # ---- output
    def finish(self):
        prop = self.prop
        ctx = self.ctx
        # checker self-test on the fixture twins (every run)
        try:
            import fixtures
            ok, res = fixtures.run_selftest()
        except Exception as e:  # fail closed
            ok, res = False, [{"rule": "self-test", "fixture": "-", "ok": False, "got": repr(e)}]
        self.extra["fixtures"] = {"ok": ok, "results": res}
        if not ok:
            badf = [r for r in res if not r["ok"]]
            self.violations.append(Violation("fixtures | self-test", "/verif/fixtures/fx_rules", "self-test",
                                             "checker self-test failed: %s" % badf[:4]))
        evdir = os.environ.get("SDLINT_EVIDENCE") or os.path.join(VERIF, "evidence")
        os.makedirs(evdir, exist_ok=True)
        vdir = os.path.join(evdir, "%s.violations" % prop)
        if os.path.isdir(vdir):
            for f in os.listdir(vdir):
                os.unlink(os.path.join(vdir, f))
        for v, what in self.known_hits:
            print("KNOWN-FINDING: property=%s %s [%s]" % (prop, what, v.key))
        for i, v in enumerate(self.violations):
            os.makedirs(vdir, exist_ok=True)
            p = os.path.join(vdir, "%d.txt" % i)
            with open(p, "w") as fh:
                fh.write("property: %s\nrule: %s\nkey: %s\nwhere: %s\n\n%s\n" % (prop, v.rule, v.key, v.where, v.message))
                if v.path:
                    fh.write("\ncall path from root:\n")
                    for x in v.path:
                        fh.write("   -> %s\n" % x)
                for k, val in v.extra.items():
                    fh.write("\n%s: %s\n" % (k, val))
            print("VIOLATION property=%s replay=%s" % (prop, p))
            print("   %s: %s  [%s]" % (v.where, v.message.splitlines()[0][:220], v.rule))
        cov = {
            "evaluations": max(self.instances, 1),
            "distinct_nontrivial": len(self.nontrivial),
            "rule": self.rule_text,
            "samples": self.samples or ["(no instances)"],
            "obligations": self.obligations,
            "discharged": self.discharged,
            "checker_cmd": "./check %s --tier %s" % (prop, ctx.tier),
            "trusted_base": ["rustc type checking / trait resolution / MIR construction (nightly 1.97)",
                             "tables/std_partial.tsv (std panic contracts)", "assumption A-OVF"],
            "explanation": "static analysis of /repo's current MIR (sdlint driver) - nothing of /repo is executed; "
                           + self.rule_text,
            "facts_sha": ctx.sha,
            "facts_reused": ctx.reused,
            "config": ctx.config,
            "bodies_analysed": len(ctx.prog.bodies),
            "floors": [{"rule": n, "measured": m, "floor": f} for n, m, f in self.floors],
            "known_findings": [v.key for v, _ in self.known_hits],
            "notes": self.notes,
        }
        cov.update(self.extra)
        ev = {
            "property_id": prop,
            "tier": ctx.tier,
            "seed": int(os.environ.get("VERIF_SEED", "0") or 0),
            "level": "other",
            "coverage": cov,
            "assumptions": self.assumptions,
            "wall_s": round(time.time() - ctx.t0, 2),
            "violations": len(self.violations),
        }
        with open(os.path.join(evdir, "%s.json" % prop), "w") as fh:
            json.dump(ev, fh, indent=1, default=str)
        return 1 if self.violations else 0


def where_of(body, sp):
    return "%s:%d:%d" % (body.prog.files[body.crate][sp["f"]], sp["l"], sp["c"])
