"""C08 Header bits are read and written per RFC 1035 section 4.1.1."""
from common import Report, Violation, load_tsv
import tables
from tables import Evaluator, EnumVal, Opaque, NotATable
from hdrmodel import Header12
import mirutil as mu


def viol(report, rule, what, msg):
    report.violate(Violation(report.key(what, rule, "table", msg[:100]), "-", rule, "%s: %s" % (rule, msg)))


def run(ctx):
    prog = ctx.prog
    report = Report("C08", ctx, "R1 mask / flag constants equal the RFC 1035 table; R2-R4 Header::parse and the header_buffer peeks, "
                    "extracted as decision tables from MIR and evaluated for all 65536 flags words with models of the std / "
                    "bitflags calls: field offsets, bit-field placement, Z-bit rejection; R3/R6 Header::get_flags writes every "
                    "named opcode / rcode / flag back to the same bits; R5 set_flags / remove_flags touch only z_flags.")
    rfc = {r[0]: int(r[1], 16) for r in load_tsv("header.tsv")}
    # ---- R1 constants
    consts = {}
    for k in prog.consts.values():
        if k["crate"] == "simple_dns" and k["v"] is not None and k["name"] in rfc:
            if "PacketFlag" in k["def"] or "header::masks" in k["def"]:
                consts[k["name"]] = int(k["v"])
    report.floor("header constants found", len(consts), 10)
    for name, want in rfc.items():
        report.count()
        got = consts.get(name)
        report.nontriv("const:" + name)
        if got is None:
            report.lost_anchor("constant " + name)
        elif got != want:
            viol(report, "C08-R1", name, "%s = %#06x but RFC 1035 4.1.1 places it at %#06x" % (name, got, want))
    flag_names = ["RESPONSE", "AUTHORITATIVE_ANSWER", "TRUNCATION", "RECURSION_DESIRED", "RECURSION_AVAILABLE", "AUTHENTIC_DATA",
                  "CHECKING_DISABLED"]
    flag_mask = 0
    for n in flag_names:
        flag_mask |= rfc[n]          # the RFC's bits: the model of bitflags uses the reference layout
    B = {}
    for name, q in [("parse", "simple_dns::Header::parse"), ("get_flags", "simple_dns::Header::get_flags"),
                    ("opcode_from", "simple_dns::<OPCODE as From<u16>>::from"), ("rcode_from", "simple_dns::<RCODE as From<u16>>::from"),
                    ("peek_id", "simple_dns::dns::header_buffer::id"), ("peek_qd", "simple_dns::dns::header_buffer::questions"),
                    ("peek_an", "simple_dns::dns::header_buffer::answers"), ("peek_ns", "simple_dns::dns::header_buffer::name_servers"),
                    ("peek_ar", "simple_dns::dns::header_buffer::additional_records"),
                    ("peek_flags", "simple_dns::dns::header_buffer::has_flags"), ("peek_rcode", "simple_dns::dns::header_buffer::rcode"),
                    ("peek_opcode", "simple_dns::dns::header_buffer::opcode"),
                    ("set_flags", "simple_dns::Header::set_flags"), ("remove_flags", "simple_dns::Header::remove_flags")]:
        B[name] = ctx.must_find(report, q)
    if any(v is None for v in B.values()):
        return report.finish()
    oadt = prog.adts["simple_dns::dns::OPCODE"]
    radt = prog.adts["simple_dns::dns::RCODE"]
    named_op = {int(v["discr"]): v["name"] for v in oadt["variants"] if v["name"] != "Reserved"}
    named_rc = {int(v["discr"]): v["name"] for v in radt["variants"] if v["name"] != "Reserved"}
    try:
        bad = []
        ID = 0xBEEF
        n_rej = n_ok = 0
        for w in range(65536):
            words = {(0, 2): ID, (2, 4): w, (4, 6): 0x0102, (6, 8): 0x0304, (8, 10): 0x0506, (10, 12): 0x0708}
            m = Header12(words, flag_mask)
            ev = Evaluator(prog, m.hooks())
            r = ev.call(B["parse"], [("data",)])
            if w & rfc["RESERVED_MASK"]:
                n_rej += 1
                if not (isinstance(r, EnumVal) and r.v == "Err"):
                    bad.append("Header::parse accepts flags %#06x although the reserved Z bit is set (%r)" % (w, r))
            else:
                n_ok += 1
                if not (isinstance(r, EnumVal) and r.v == "Ok"):
                    bad.append("Header::parse(flags %#06x) = %r, expected Ok" % (w, r))
                else:
                    h = r.f[0]
                    fields = dict(zip(["id", "opcode", "response_code", "z_flags", "opt"], h.f))
                    opc = (w >> 11) & 0xF
                    rc = w & 0xF
                    want_op = EnumVal("OPCODE", named_op.get(opc, "Reserved"))
                    want_rc = EnumVal("RCODE", named_rc.get(rc, "Reserved"))
                    if fields["id"] != ID:
                        bad.append("Header::parse reads id from %r" % (m.reads,))
                    if fields["opcode"] != want_op:
                        bad.append("flags %#06x: opcode parsed as %r, RFC says %r" % (w, fields["opcode"], want_op))
                    if fields["response_code"] != want_rc:
                        bad.append("flags %#06x: rcode parsed as %r, RFC says %r" % (w, fields["response_code"], want_rc))
                    if fields["z_flags"] != (w & flag_mask):
                        bad.append("flags %#06x: flag bits parsed as %r, RFC says %#06x" % (w, fields["z_flags"], w & flag_mask))
                    # write back
                    hdr = {"id": ID, "opcode": fields["opcode"], "response_code": fields["response_code"],
                           "z_flags": fields["z_flags"], "opt": EnumVal("Option", "None")}
                    back = Evaluator(prog, m.hooks()).call(B["get_flags"], [hdr])
                    if opc in named_op and rc in named_rc and back != w:
                        bad.append("flags %#06x are written back as %r" % (w, back))
            # peeks
            m2 = Header12(words, flag_mask)
            ev2 = Evaluator(prog, m2.hooks())
            pr = ev2.call(B["peek_rcode"], [("buffer",)])
            po = ev2.call(B["peek_opcode"], [("buffer",)])
            if not (isinstance(pr, EnumVal) and pr.v == "Ok" and pr.f[0] == EnumVal("RCODE", named_rc.get(w & 15, "Reserved"))):
                bad.append("header_buffer::rcode(flags %#06x) = %r" % (w, pr))
            if not (isinstance(po, EnumVal) and po.v == "Ok" and po.f[0] == EnumVal("OPCODE", named_op.get((w >> 11) & 15, "Reserved"))):
                bad.append("header_buffer::opcode(flags %#06x) = %r" % (w, po))
            if set(m2.reads) != {(2, 4)}:
                bad.append("header_buffer::rcode/opcode read bytes %r, expected 2..4" % (sorted(set(m2.reads)),))
            if w % 257 == 0 or w in (0x8000, 0x0400, 0x0200, 0x0100, 0x0080, 0x0020, 0x0010, 0xFFFF):
                for fn in flag_names:
                    m3 = Header12(words, flag_mask)
                    pf = Evaluator(prog, m3.hooks()).call(B["peek_flags"], [("buffer",), rfc[fn]])
                    want = int((w & rfc[fn]) == rfc[fn])
                    if not (isinstance(pf, EnumVal) and pf.v == "Ok" and pf.f[0] == want):
                        bad.append("header_buffer::has_flags(flags %#06x, %s) = %r" % (w, fn, pf))
                # a union of flags is present only when every one of them is (and the empty set always is)
                import itertools as _it
                queries = [(0, "no flag")] + [(rfc[f1] | rfc[f2], "%s|%s" % (f1, f2)) for f1, f2 in _it.combinations(sorted(flag_names), 2)]
                for q, qn in queries:
                    m3 = Header12(words, flag_mask)
                    pf = Evaluator(prog, m3.hooks()).call(B["peek_flags"], [("buffer",), q])
                    want = int((w & q) == q)
                    if not (isinstance(pf, EnumVal) and pf.v == "Ok" and pf.f[0] == want):
                        bad.append("header_buffer::has_flags(flags %#06x, %s) = %r, expected %d: a set of flags is present only when "
                                   "all of its bits are" % (w, qn, pf, want))
            if len(bad) > 12:
                break
        # writer, every RCODE / OPCODE variant (codes above 15 included: their upper bits live in the OPT TTL, C09): the
        # rcode may only occupy bits 3..0 and the opcode bits 14..11 of the flags word
        all_rc = [(v["name"], int(v["discr"])) for v in radt["variants"]]
        all_op = [(v["name"], int(v["discr"])) for v in oadt["variants"]]
        for rn, rd_ in all_rc:
            for on, od in all_op:
                for z in (0, flag_mask):
                    hdr = {"id": ID, "opcode": EnumVal("OPCODE", on), "response_code": EnumVal("RCODE", rn), "z_flags": z,
                           "opt": EnumVal("Option", "None")}
                    m4 = Header12({}, flag_mask)
                    wv = Evaluator(prog, m4.hooks()).call(B["get_flags"], [hdr])
                    report.count()
                    if not isinstance(wv, int):
                        bad.append("Header::get_flags(%s, %s) is not evaluable (%r)" % (on, rn, wv))
                        continue
                    if (wv & ~0x000F & ~0x7800) != z:
                        bad.append("Header::get_flags(opcode %s, rcode %s=%d, flags %#06x) = %#06x: the code spills into flag bits %#06x "
                                   "(only bits 3..0 carry the rcode, 14..11 the opcode)" % (on, rn, rd_, z, wv, (wv & ~0x000F & ~0x7800) ^ z))
                    elif rn != "Reserved" and (wv & 0xF) != (rd_ & 0xF):
                        bad.append("Header::get_flags writes rcode %s=%d as nibble %d" % (rn, rd_, wv & 0xF))
                    elif on != "Reserved" and ((wv >> 11) & 0xF) != (od & 0xF):
                        bad.append("Header::get_flags writes opcode %s=%d as %d" % (on, od, (wv >> 11) & 0xF))
        report.nontriv("writer table all variants")
        report.count(65536 * 3)
        report.nontriv("parse table")
        report.nontriv("peek tables")
        report.extra["flags_words_evaluated"] = 65536
        report.extra["rejected_for_z_bit"] = n_rej
        report.floor("flags words rejected for the Z bit", n_rej, 32768 if not bad else 0)
        for msg in bad[:12]:
            viol(report, "C08-R3", "flags word tables", msg)
        # count / id peeks: offsets
        for nm, off in [("peek_id", (0, 2)), ("peek_qd", (4, 6)), ("peek_an", (6, 8)), ("peek_ns", (8, 10)), ("peek_ar", (10, 12))]:
            words = {(0, 2): 1, (2, 4): 2, (4, 6): 3, (6, 8): 4, (8, 10): 5, (10, 12): 6}
            m = Header12(words, flag_mask)
            r = Evaluator(prog, m.hooks()).call(B[nm], [("buffer",)])
            report.count()
            report.nontriv("offset:" + nm)
            if not (isinstance(r, EnumVal) and r.v == "Ok" and r.f[0] == words[off]) or set(m.reads) != {off}:
                viol(report, "C08-R2", B[nm].qname, "%s reads bytes %r (result %r); RFC 1035 places the field at %d..%d" % (
                    B[nm].qname, sorted(set(m.reads)), r, off[0], off[1]))
            # short buffers give an error, not a value
            m = Header12(words, flag_mask, length=off[1] - 1)
            r = Evaluator(prog, m.hooks()).call(B[nm], [("buffer",)])
            if not (isinstance(r, EnumVal) and r.v == "Err"):
                viol(report, "C08-R2", B[nm].qname, "%s on a %d-byte buffer = %r, expected an error" % (B[nm].qname, off[1] - 1, r))
        report.sample({"table": "Header::parse / get_flags", "domain": "all 65536 flags words",
                       "example": "0x8580 -> QR|AA|RD, opcode StandardQuery, rcode NoError -> 0x8580"})
    except NotATable as e:
        viol(report, "C08-R3", "header tables", "a header function is no longer a loop-free decision table: %s" % e)
    # ---- R5: set_flags / remove_flags only touch z_flags
    for nm in ("set_flags", "remove_flags"):
        b = B[nm]
        touched = set()
        for bl in b.blocks:
            if bl["cleanup"]:
                continue
            for s in bl["stmts"]:
                if s["s"] != "assign":
                    continue
                for pl, is_write in ((s["pl"], True), (s["rv"].get("pl") if s["rv"]["k"] == "ref" and s["rv"]["mut"] else None, True)):
                    if pl is None or pl["l"] != 1:
                        continue
                    fs = [p["n"] for p in pl["p"] if isinstance(p, dict) and "f" in p]
                    touched.add(fs[0] if fs else "*self")
        report.count()
        report.nontriv("mut:" + nm)
        if touched != {"z_flags"}:
            viol(report, "C08-R5", b.qname, "%s writes %s; only the flag bits (z_flags) may change" % (b.qname, sorted(touched)))
    # ---- R5b: what set_flags / remove_flags compute: z_flags | flags, and z_flags with the bits of `flags` cleared (operand order!)
    for nm in ("set_flags", "remove_flags"):
        b = B[nm]
        defs = mu.defs_of(b)

        def role(op, depth=0):
            """'self' for (a copy of / reference to) self.z_flags, 'param' for the flags argument, ('not', role) for its complement"""
            if op is None or op.get("o") not in ("copy", "move") or depth > 6:
                return None
            pl = op["pl"]
            if any(isinstance(p, dict) and p.get("n") == "z_flags" for p in pl["p"]) and pl["l"] == 1:
                return "self"
            if pl["l"] == 2 and not pl["p"]:
                return "param"
            d = mu.single_def(defs, pl["l"])
            if d is None:
                return None
            if d[1] == "term":
                cal = d[2]["callee"]["def"] if d[2]["callee"] else ""
                if cal.endswith("::complement") or cal.endswith("as std::ops::Not>::not"):
                    r = role(d[2]["args"][0], depth + 1)
                    return ("not", r) if r else None
                return None
            rv = d[2]
            if rv.get("k") == "ref":
                return role({"o": "copy", "pl": rv["pl"]}, depth + 1)
            if rv.get("k") in ("use", "cast"):
                return role(rv["op"], depth + 1)
            if rv.get("k") == "un" and rv.get("op") == "Not":
                r = role(rv["a"], depth + 1)
                return ("not", r) if r else None
            return None
        ops = []
        for bi, t in mu.calls(b, r"PacketFlag"):
            name = t["callee"]["name"]
            roles = [role(a) for a in t["args"]]
            ops.append((name, roles, t))
        report.count()
        okf = False
        why = "no bitflags operation on self.z_flags found"
        if len(ops) == 1:
            name, roles, t = ops[0]
            in_place = roles[:1] == ["self"] and mu.resolve_loc(b, defs, t["dest"]) != (1, ())
            if nm == "set_flags":
                okf = (name in ("bitor_assign", "insert") and roles == ["self", "param"]) or \
                      (name in ("bitor", "union") and sorted(map(str, roles)) == ["param", "self"])
            else:
                okf = (name in ("remove", "sub_assign") and roles == ["self", "param"]) or \
                      (name in ("difference", "sub") and roles == ["self", "param"]) or \
                      (name in ("bitand_assign", "bitand", "intersection") and
                       (roles == ["self", ("not", "param")] or roles == [("not", "param"), "self"]))
            why = "%s(%s)" % (name, ", ".join(str(r) for r in roles))
        elif len(ops) > 1:
            # e.g. `self.z_flags & flags.complement()` : two operations, the last one combines
            name, roles, t = ops[-1]
            if nm == "remove_flags":
                okf = name in ("bitand_assign", "bitand", "intersection") and (roles == ["self", ("not", "param")] or roles == [("not", "param"), "self"])
            else:
                okf = name in ("bitor_assign", "bitor", "union", "insert") and sorted(map(str, roles)) == ["param", "self"]
            why = "%s(%s)" % (name, ", ".join(str(r) for r in roles))
        if okf:
            report.nontriv("flag-op:" + nm)
        else:
            viol(report, "C08-R5", b.qname, "%s computes %s; required: %s" % (
                b.qname, why, "self.z_flags | flags" if nm == "set_flags" else "self.z_flags with the bits of `flags` cleared (z_flags - flags)"))
    report.assumptions += ["bitflags' from_bits_truncate / bits / contains follow their documented contract (modelled)",
                           "slice indexing, get, try_into and from_be_bytes are modelled by their std contracts"]
    return report.finish()
