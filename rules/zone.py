"""A3/A4: numeric abstract interpretation of one MIR body ("zone+" domain).

Values are linear forms over immutable logical symbols; facts are linear inequalities gathered
from branches, successful checks and callee summaries.  The analysis produces, per body:
  * obligations  - one per panic-capable construct, with a verdict (discharged or not)
  * events       - resolved symbolic arguments of calls / index sites (used by layout rules)
  * summary      - Ok-post of cursor-style functions (advance >= 1, out <= len(data))
"""
import re
from lin import Lin, INF, ub, lb, entails

USIZE_HI = (1 << 63)
# an allocation request of more than this many elements must be bounded by the input length (A6): 65535 entries of a
# 100+ byte record type driven by two header bytes is exactly the amplification C01 forbids
ALLOC_CONST = 1024


def int_range(t):
    if t["k"] == "int":
        w = t["w"]
        if t["sg"]:
            return (-(1 << (w - 1)), (1 << (w - 1)) - 1)
        return (0, (1 << w) - 1 if w < 64 else USIZE_HI)
    if t["k"] == "bool":
        return (0, 1)
    if t["k"] == "char":
        return (0, 0x10FFFF)
    return None


def is_wide(t):
    return t["k"] == "int" and t["w"] >= 64


class State:
    __slots__ = ("store", "facts")

    def __init__(self, store=None, facts=None):
        self.store = store if store is not None else {}
        self.facts = facts if facts is not None else set()

    def copy(self):
        return State(dict(self.store), set(self.facts))


def _is_prefix(key, k2):
    if k2 == key:
        return True
    if k2.startswith(key) and k2[len(key)] in ".[@":
        return True
    if k2.startswith("len:"):
        return _is_prefix(key, k2[4:])
    if k2.startswith("wpos:"):
        return False
    if k2.startswith("*") and not key.startswith("*"):
        return _is_prefix(key, k2[1:])
    return False


_BASE = re.compile(r"^(len:|\*|src:)?_(\d+)")
_STD_VARIANT_INDEX = {("Result", "Ok"): 0, ("Result", "Err"): 1, ("Option", "None"): 0, ("Option", "Some"): 1,
                      ("ControlFlow", "Continue"): 0, ("ControlFlow", "Break"): 1}
_VARIANT_KEY = re.compile(r"^(.+)@(\w+)\.[\w.@]*$")

NEG = {"Lt": "Ge", "Ge": "Lt", "Gt": "Le", "Le": "Gt", "Eq": "Ne", "Ne": "Eq"}


class _Origin(dict):
    """origin map; a clone that is later handed as `&mut Vec` to an unmodelled callee (dedup, retain, truncate, push ...)
    no longer stands for "the same elements as its source" """

    def __init__(self):
        super().__init__()
        self.cloned = set()
        self.dead = set()

    def get(self, k, d=None):
        if k in self.dead:
            return d
        return super().get(k, d)


class Obligation:
    __slots__ = ("bi", "kind", "what", "goals", "ok", "span", "snippet", "detail", "exp", "why", "unwrap_of", "failed",
                 "lifted")

    def __init__(self, bi, kind, what, span, snippet, exp):
        self.bi = bi
        self.kind = kind
        self.what = what
        self.goals = []
        self.ok = False
        self.span = span
        self.snippet = snippet
        self.exp = exp
        self.detail = ""
        self.why = ""
        self.unwrap_of = None
        self.failed = []
        self.lifted = False


class Analysis:
    def __init__(self, body, summaries, catalogue, depth=3):
        self.b = body
        self.summaries = summaries      # body id -> summary dict
        self.cat = catalogue            # function: callee def -> (kind, rule) or None
        self.depth = depth
        self.iv = {}                    # symbol -> (lo, hi)
        self.phi_keys = {}              # block -> set of keys phi'd there (sticky)
        self.entry = {}                 # block -> State at entry
        self.obligations = []
        self.events = []
        self.ok_points = []             # (state, kind) at assignments of Ok-tagged values to _0
        self.ret_states = []
        self.final = False
        self.bases = {}
        self.origin = _Origin()  # local key -> the place its value was copied from (for layout sources)
        self.elem_index = {}   # element symbol -> index Lin within its slice
        self.elems = []        # single-byte reads (A10)
        self._elem_seen = set()
        self._cur_bi = 0
        self._last_index = None
        self._parent_sid = None
        self.reads = []        # integer reads from byte slices (A10)
        self.slices = []       # sub-slices taken (A10)
        self.derived = {}      # symbol -> symbols it was computed from
        self.bitand = {}       # symbol -> (operand Lin, constant mask) for results of `x & MASK`
        self.dispatch = None
        self.force = None
        self.force_sym = None
        self.emits = []        # bytes written to a writer, in order (A10)
        self.discr_types = {}  # place key -> type of the enum whose discriminant is switched on
        self.debug = False
        self.pending = {}               # callsite id -> info for Ok-summaries
        self.sw_facts = {}              # (bi) -> description of branch facts (for reports)
        self.types = body.prog.types[body.crate]
        self.type_invs = {}             # struct path -> [(int field, slice field)]: `field <= len(slice field)` assumed at entry (A11)
        self.struct_builds = []         # (struct path, field names, field values, state) at every construction of a workspace struct

    # ------------------------------------------------------------------ symbols
    def sym(self, name, rng=None):
        if name not in self.iv:
            self.iv[name] = rng if rng is not None else (-INF, INF)
        return Lin.sym(name)

    def fresh_for_type(self, name, t):
        r = int_range(t)
        if r is None:
            return None
        return ("lin", self.sym(name, r))

    # ------------------------------------------------------------------ places
    def key_of(self, st, pl, bi=0, si=0):
        cur = "_%d" % pl["l"]
        for p in pl["p"]:
            if p == "d":
                v = st.store.get(cur)
                if v is not None and v[0] == "ref":
                    cur = v[1]
                elif v is not None and v[0] == "slice":
                    cur = "*" + v[1]
                else:
                    cur = "(*%s)" % cur
            elif isinstance(p, dict):
                if "f" in p:
                    cur = "%s.%s" % (cur, p["n"] if p["n"] is not None else p["f"])
                elif "dc" in p:
                    cur = "%s@%s" % (cur, p["n"] if p["n"] is not None else p["dc"])
                elif "ix" in p:
                    iv = st.store.get("_%d" % p["ix"])
                    if iv is not None and iv[0] == "lin":
                        cur = "%s[%r]" % (cur, iv[1])
                        self._last_index = iv[1]
                    else:
                        cur = "%s[?%d.%d]" % (cur, bi, si)
                elif "cix" in p:
                    cur = "%s[%s%d]" % (cur, "end-" if p["end"] else "", p["cix"])
                    self._last_index = Lin.const(p["cix"]) if not p["end"] else None
                elif "sub" in p:
                    cur = "%s[sub%d.%d]" % (cur, bi, si)
            else:
                cur = "%s.<%s>" % (cur, p)
        return cur

    def read_place(self, st, pl, bi, si):
        key = self.key_of(st, pl, bi, si)
        v = st.store.get(key)
        if v is not None:
            return v
        # one byte of the byte image of an integer (`let [_, b1, b2, b3] = x.to_be_bytes()`)
        if pl["p"] and isinstance(pl["p"][-1], dict) and "cix" in pl["p"][-1] and not pl["p"][-1].get("end"):
            base = dict(pl)
            base["p"] = pl["p"][:-1]
            bv = st.store.get(self.key_of(st, base, bi, si))
            if bv is not None and bv[0] == "bytes":
                return ("bytepart", bv[2], bv[3], bv[4], int(pl["p"][-1]["cix"]))
        t = self.types[pl["t"]]
        nv = self.default_val(key, t, "%s@%d.%d" % (key, bi, si))
        if nv is not None:
            st.store[key] = nv
        return nv

    def default_val(self, key, t, symname):
        k = t["k"]
        if k in ("int", "bool", "char"):
            # element of a byte slice read through a shared reference: pure symbol
            if "[" in key and not key.startswith("_") or key.startswith("*"):
                symname = "elem(%s)" % key
                if self._last_index is not None:
                    self.elem_index[symname] = self._last_index
                if self.final and symname not in self._elem_seen:
                    self._elem_seen.add(symname)
                    mm = re.match(r"^elem\(\*?(.*)\[.*\]\)$", symname)
                    if mm and self._last_index is not None:
                        root, off = self.root_of(mm.group(1))
                        self.elems.append({"sym": symname, "root": root, "off": off + self._last_index, "bi": self._cur_bi})
            return ("lin", self.sym(symname, int_range(t)))
        if k == "ref":
            inner = self.types[t["t"]]
            if inner["k"] in ("slice", "str"):
                return ("slice", key)
            return ("ref", "(*%s)" % key, t["mut"])
        return None

    def kill(self, st, key):
        for k2 in [k for k in st.store if _is_prefix(key, k)]:
            del st.store[k2]

    def write(self, st, key, val):
        self.kill(st, key)
        if val is not None:
            st.store[key] = val

    # ------------------------------------------------------------------ lengths
    def length_of(self, st, sid, t=None):
        """Lin for the length of slice identity sid"""
        v = st.store.get("len:" + sid)
        if v is not None:
            return v[1]
        s = self.sym("len(%s)" % sid, (0, USIZE_HI))
        st.store["len:" + sid] = ("lin", s)
        return s

    def slice_len_of_val(self, st, v, ty):
        """length Lin of a value that denotes a slice / array / Vec reference, or None"""
        t = ty
        while t is not None and t["k"] == "ref":
            t = self.types[t["t"]]
        if t is not None and t["k"] == "array" and t["n"] is not None:
            return Lin.const(t["n"])
        if v is None:
            return None
        if v[0] == "slice":
            return self.length_of(st, v[1])
        if v[0] == "ref":
            return self.length_of(st, v[1])
        return None

    # ------------------------------------------------------------------ operands / rvalues
    def op_ty(self, op):
        if op["o"] in ("copy", "move"):
            return self.types[op["pl"]["t"]]
        if op["o"] == "const":
            return self.types[op["k"]["t"]]
        return None

    def eval_op(self, st, op, bi, si):
        if op["o"] in ("copy", "move"):
            return self.read_place(st, op["pl"], bi, si)
        if op["o"] == "const":
            k = op["k"]
            if k["c"] == "int":
                return ("lin", Lin.const(int(k["v"])))
            if "len" in k:
                sid = "const%d.%d" % (bi, si)
                st.store["len:" + sid] = ("lin", Lin.const(k["len"]))
                return ("slice", sid)
            if k["c"] == "bytes":
                sid = "const%d.%d" % (bi, si)
                st.store["len:" + sid] = ("lin", Lin.const(len(k["v"])))
                return ("slice", sid)
            if k["c"] == "fn":
                return ("fn", k["callee"])
            if k.get("promoted"):
                # `&Enum::Variant` of a fieldless workspace enum (what `flag == Enum::Variant` compares with)
                pv = self.b.prog.promoted_value(op)
                if pv is not None:
                    adt = self.b.prog.adts.get(pv[0])
                    if adt is not None and adt.get("kind") == "enum" and all(not v.get("fields") for v in adt["variants"]):
                        key = "promoted:%s::%s" % (pv[0].split("::")[-1], pv[1])
                        st.store[key] = ("adt", pv[0].split("::")[-1], pv[1], (), ())
                        return ("ref", key, False)
            return None
        return None

    def as_lin(self, v):
        if v is not None and v[0] == "lin":
            return v[1]
        return None

    def eval_rv(self, st, rv, dest_ty, bi, si):
        k = rv["k"]
        if k == "use":
            return self.eval_op(st, rv["op"], bi, si)
        if k == "ref":
            pl = rv["pl"]
            # reborrow of a slice keeps its identity
            if pl["p"] and pl["p"][-1] == "d" and len(pl["p"]) == 1:
                base = st.store.get("_%d" % pl["l"])
                if base is not None and base[0] == "slice":
                    return base
            key = self.key_of(st, pl, bi, si)
            if key.startswith("*") and not pl["p"][-1:] == [{"x": 0}]:
                # &(*slice) through nested refs
                t = self.types[pl["t"]]
                if t["k"] in ("slice", "str"):
                    return ("slice", key[1:])
            t = self.types[pl["t"]]
            if t["k"] in ("slice", "str"):
                return ("slice", key)
            return ("ref", key, rv["mut"])
        if k == "rawptr":
            pl = rv["pl"]
            key = self.key_of(st, pl, bi, si)
            t = self.types[pl["t"]]
            if t["k"] in ("slice", "str"):
                return ("slice", key[1:] if key.startswith("*") else key)
            return ("ref", key, False)
        if k == "bin":
            return self.eval_bin(st, rv, dest_ty, bi, si)
        if k == "un":
            a = self.eval_op(st, rv["a"], bi, si)
            if rv["op"] == "PtrMetadata":
                ln = self.slice_len_of_val(st, a, self.op_ty(rv["a"]))
                return ("lin", ln) if ln is not None else None
            if rv["op"] == "Not":
                if a is not None and a[0] == "bool":
                    return ("bool", NEG[a[1]], a[2], a[3])
                la = self.as_lin(a)
                if la is not None and dest_ty["k"] == "bool":
                    return ("lin", Lin.const(1) - la)
                if la is not None and la.is_const() and dest_ty["k"] == "int" and not dest_ty["sg"]:
                    return ("lin", Lin.const(((1 << dest_ty["w"]) - 1) ^ la.c))
                return None
            return None
        if k == "cast":
            a = self.eval_op(st, rv["op"], bi, si)
            if rv["ck"] == "IntToInt":
                la = self.as_lin(a)
                r = int_range(dest_ty)
                if la is not None and r is not None:
                    if lb(la, self.iv) >= r[0] and ub(la, self.iv) <= r[1]:
                        return a
                    # facts may bound it
                    if entails(st.facts, self.iv, la - r[1], 2) and entails(st.facts, self.iv, Lin.const(r[0]) - la, 2):
                        return a
                    nm = "trunc%d.%d" % (bi, si)
                    self.derived[nm] = la
                    return ("lin", self.sym(nm, r))
                return None
            if rv["ck"] in ("PointerCoercion", "PtrToPtr", "Transmute", "Subtype"):
                # &[T; N] -> &[T] and friends keep identity; length comes from the array type
                if rv.get("pc", "").startswith("Unsize"):
                    st_t = self.op_ty(rv["op"])
                    ln = self.slice_len_of_val(st, a, st_t)
                    if ln is not None and self.types[rv["t"]]["k"] == "ref" and \
                            self.types[self.types[rv["t"]]["t"]]["k"] == "slice":
                        sid = "unsz%d.%d" % (bi, si)
                        st.store["len:" + sid] = ("lin", ln)
                        if a is not None and a[0] == "ref":
                            st.store["src:" + sid] = ("ref", a[1], False)
                        return ("slice", sid)
                return a
            return None
        if k == "discr":
            key = self.key_of(st, rv["pl"], bi, si)
            v = st.store.get(key)
            if v is not None and v[0] in ("callres", "branch", "adt"):
                return ("discr", v)
            self.discr_types[key] = self.types[rv["pl"]["t"]]
            return ("discr", ("place", key))
        if k == "agg":
            ak = rv["ak"]
            vals = [self.eval_op(st, o, bi, si) for o in rv["ops"]]
            if ak == "adt":
                short = rv["adt"].split("::")[-1]
                if short == "Range" and len(vals) == 2:
                    return ("range", self.as_lin(vals[0]), self.as_lin(vals[1]))
                if short == "RangeTo":
                    return ("rangeto", self.as_lin(vals[0]))
                if short == "RangeFrom":
                    return ("rangefrom", self.as_lin(vals[0]))
                if short == "RangeFull":
                    return ("rangefull",)
                if self.final and rv["adt"].startswith(("simple_dns", "simple_mdns", "fx_")) and rv.get("fields"):
                    self.struct_builds.append((rv["adt"], tuple(rv["fields"]), tuple(vals), st.copy(), [self.op_ty(o) for o in rv["ops"]]))
                return ("adt", short, rv["vn"], tuple(vals), tuple(rv["fields"]))
            if ak == "tuple":
                return ("tuple", tuple(vals))
            if ak in ("closure", "coroutine"):
                return ("closure", rv["def"], tuple(vals))
            if ak == "array":
                return ("array", len(vals), tuple(vals), tuple(self.src_of(st, o, bi) for o in rv["ops"]))
            return None
        if k == "repeat":
            return ("array", rv["n"], None)
        return None

    def eval_bin(self, st, rv, dest_ty, bi, si):
        op = rv["op"]
        a = self.eval_op(st, rv["a"], bi, si)
        b = self.eval_op(st, rv["b"], bi, si)
        la, lb_ = self.as_lin(a), self.as_lin(b)
        ta = self.op_ty(rv["a"])
        if op in ("Lt", "Le", "Gt", "Ge", "Eq", "Ne"):
            if la is not None and lb_ is not None:
                return ("bool", op, la, lb_)
            return None
        base = op.replace("WithOverflow", "").replace("Unchecked", "")
        res = None
        if la is not None and lb_ is not None:
            if base == "Add":
                res = la + lb_
            elif base == "Sub":
                res = la - lb_
            elif base == "Mul":
                if lb_.is_const():
                    res = la.scale(lb_.c)
                elif la.is_const():
                    res = lb_.scale(la.c)
            elif base in ("BitAnd", "BitOr", "BitXor", "Shl", "Shr", "Div", "Rem"):
                if la.is_const() and lb_.is_const():
                    x, y = la.c, lb_.c
                    try:
                        v = {"BitAnd": x & y, "BitOr": x | y, "BitXor": x ^ y, "Shl": x << y, "Shr": x >> y,
                             "Div": x // y if y else 0, "Rem": x % y if y else 0}[base]
                        r = int_range(ta)
                        if base == "Shl" and r and not ta["sg"]:
                            v &= r[1] if ta["w"] < 64 else (1 << 64) - 1
                        res = Lin.const(v)
                    except Exception:
                        res = None
        if res is None and ta is not None and ta["k"] == "int":
            # interval-only results for bit operations
            name = "t%d.%d" % (bi, si)
            r = int_range(ta)
            if base == "BitAnd":
                hi = r[1]
                for x in (la, lb_):
                    if x is not None and not ta["sg"]:
                        hi = min(hi, max(0, ub(x, self.iv)))
                res = self.sym(name, (0 if not ta["sg"] else r[0], hi))
                # remember `x & MASK` so that a later `== MASK` test can be read as x >= MASK, and so that rules can ask
                # which mask a value went through
                if la is not None and lb_ is not None and not ta["sg"]:
                    # (the operand is path-dependent: kept in the state; the dict keeps the last one for rule queries)
                    if lb_.is_const() and not la.is_const():
                        self.bitand[name] = (la, lb_.c)
                        st.store["and:" + name] = ("lin", la)
                    elif la.is_const() and not lb_.is_const():
                        self.bitand[name] = (lb_, la.c)
                        st.store["and:" + name] = ("lin", lb_)
            elif base == "Shr" and lb_ is not None and lb_.is_const() and la is not None and not ta["sg"]:
                hi = ub(la, self.iv)
                lo = max(0, lb(la, self.iv))
                res = self.sym(name, (lo >> lb_.c, (hi >> lb_.c) if hi < INF else r[1]))
            elif base == "Rem" and lb_ is not None and not ta["sg"]:
                hi = ub(lb_, self.iv)
                res = self.sym(name, (0, hi - 1 if 0 < hi < INF else r[1]))
            elif base == "Div" and la is not None and lb_ is not None and lb_.is_const() and lb_.c > 0 and not ta["sg"]:
                hi = ub(la, self.iv)
                res = self.sym(name, (0, hi // lb_.c if hi < INF else r[1]))
            elif base == "BitOr" and la is not None and lb_ is not None and not ta["sg"]:
                ha, hb = ub(la, self.iv), ub(lb_, self.iv)
                if ha < INF and hb < INF and ha >= 0 and hb >= 0:
                    bits = max(ha.bit_length(), hb.bit_length())
                    res = self.sym(name, (0, (1 << bits) - 1))
                else:
                    res = self.sym(name, r)
            elif base == "Mul" and la is not None and lb_ is not None:
                ha, hb = ub(la, self.iv), ub(lb_, self.iv)
                if ha < INF and hb < INF and lb(la, self.iv) >= 0 and lb(lb_, self.iv) >= 0:
                    res = self.sym(name, (0, ha * hb))
                else:
                    res = self.sym(name, (-INF, INF))
            else:
                res = self.sym(name, r if "Overflow" not in op else (-INF, INF))
        if res is None:
            return None
        if "WithOverflow" in op:
            return ("ovf", res, base, la, lb_)
        return ("lin", res)

    # ------------------------------------------------------------------ facts
    def add_cmp(self, st, op, a, b):
        """assume a op b"""
        if op == "Lt":
            st.facts.add(a - b + 1)
        elif op == "Le":
            st.facts.add(a - b)
        elif op == "Gt":
            st.facts.add(b - a + 1)
        elif op == "Ge":
            st.facts.add(b - a)
        elif op == "Eq":
            st.facts.add(a - b)
            st.facts.add(b - a)
            # (x & M) == M  implies  x >= M   (unsigned)
            for u, v in ((a, b), (b, a)):
                if len(u.t) == 1 and u.c == 0 and u.t[0][1] == 1 and u.t[0][0] in self.bitand and v.is_const():
                    m = self.bitand[u.t[0][0]][1]
                    x = st.store.get("and:" + u.t[0][0])
                    if v.c == m and x is not None and x[0] == "lin":
                        st.facts.add(Lin.const(m) - x[1])
        elif op == "Ne":
            # x != c with x >= c known (e.g. unsigned != 0) tightens to x >= c+1
            if ub(b - a, self.iv) <= 0 or entails(st.facts, self.iv, b - a, 1):
                st.facts.add(b - a + 1)
            elif ub(a - b, self.iv) <= 0 or entails(st.facts, self.iv, a - b, 1):
                st.facts.add(a - b + 1)

    def holds(self, st, e):
        return entails(st.facts, self.iv, e, self.depth)


# ====================================================================== transfer / fixpoint

DEREF_LIKE = re.compile(
    r"(as std::ops::Deref(Mut)?>::deref(_mut)?$|::as_bytes$|::as_slice$|::as_mut_slice$|::as_str$|"
    r"as std::convert::AsRef<.*>>::as_ref$|as std::borrow::Borrow<.*>>::borrow$|::as_mut_str$|String::as_mut_vec$)")
LEN_LIKE = re.compile(r"(^core::slice::<impl \[T\]>::len$|^std::vec::Vec::<T, A>::len$|^core::str::<impl str>::len$|"
                      r"^std::string::String::len$|^std::collections::VecDeque::<T, A>::len$)")
EMPTY_LIKE = re.compile(r"(^core::slice::<impl \[T\]>::is_empty$|^std::vec::Vec::<T, A>::is_empty$|"
                        r"^core::str::<impl str>::is_empty$|^std::string::String::is_empty$)")
INT_CONV = re.compile(r"(^core::num::<impl [iu](8|16|32|64|128|size)>::(from_be_bytes|from_le_bytes|from_ne_bytes|to_be_bytes|to_le_bytes|to_ne_bytes|from_be|to_be|"
                      r"from_le|to_le|swap_bytes|reverse_bits|rotate_left|rotate_right|count_ones|count_zeros|leading_zeros|"
                      r"wrapping_add|wrapping_sub|wrapping_mul|saturating_add|saturating_sub|min|max)$)")
WIDEN = re.compile(r"^std::convert::num::<impl std::convert::From<(u8|u16|u32|u64|bool|i8|i16|i32)> for [iu](8|16|32|64|128|size)>::from$")
OK_PRESERVING = re.compile(r"^std::result::Result::<T, E>::(map|map_err|inspect|inspect_err)$")
RECV_FROM = re.compile(r"^(std|tokio)::net::UdpSocket::(recv_from|recv|peek_from|peek)$|^socket2::Socket::(recv|recv_from)$|"
                       r"^<.* as std::io::Read>::read$|^std::io::Read::read$")


def _short(s):
    s = re.sub(r"<.*$", "", s or "")
    return s.split("::")[-1]


def subst(e, s, repl):
    """substitute symbol s by Lin repl in e"""
    d = e.d()
    k = d.pop(s, 0)
    r = Lin(d, e.c)
    if k:
        r = r + repl.scale(k)
    return r


class Analyzer(Analysis):
    # ------------------------------------------------------------------ helpers
    def copy_tree(self, st, src, dst):
        if src == dst:
            return
        items = [(k, v) for k, v in st.store.items() if _is_prefix(src, k) and k != src and not k.startswith("len:")]
        for k, v in items:
            st.store[dst + k[len(src):]] = v
        lv = st.store.get("len:" + src)
        if lv is not None:
            st.store["len:" + dst] = lv

    def decompose(self, st, key, val):
        if val is None:
            return
        if val[0] == "range":
            if val[1] is not None:
                st.store[key + ".start"] = ("lin", val[1])
            if val[2] is not None:
                st.store[key + ".end"] = ("lin", val[2])
        elif val[0] == "adt":
            _, short, vn, vals, fields = val
            for f, v in zip(fields, vals):
                if v is not None:
                    # struct fields live at key.f ; enum payloads at key@Variant.f
                    st.store["%s.%s" % (key, f)] = v
                    st.store["%s@%s.%s" % (key, vn, f)] = v
        elif val[0] == "tuple":
            for i, v in enumerate(val[1]):
                if v is not None:
                    st.store["%s.%d" % (key, i)] = v
        elif val[0] == "ovf":
            st.store[key + ".0"] = ("lin", val[1])
        elif val[0] == "closure":
            for i, v in enumerate(val[2]):
                if v is not None:
                    st.store["%s.%d" % (key, i)] = v

    def assign(self, st, pl, rv, bi, si):
        dest_ty = self.types[pl["t"]]
        val = self.eval_rv(st, rv, dest_ty, bi, si)
        key = self.key_of(st, pl, bi, si)
        src_key = None
        if rv["k"] == "use" and rv["op"]["o"] in ("copy", "move"):
            src_key = self.key_of(st, rv["op"]["pl"], bi, si)
        saved = None
        if src_key is not None and src_key != key:
            saved = [(k, v) for k, v in st.store.items() if _is_prefix(src_key, k) and k != src_key]
        if src_key is not None and not key.startswith("(*") and "[" not in src_key:
            self.origin[key] = self.origin.get(src_key, src_key)
        elif rv["k"] == "cast" and rv["op"]["o"] in ("copy", "move") and rv["ck"] == "IntToInt":
            sk = self.key_of(st, rv["op"]["pl"], bi, si)
            self.origin[key] = self.origin.get(sk, sk)
        self.write(st, key, val)
        if saved:
            for k, v in saved:
                if k.startswith("len:"):
                    st.store["len:" + key + k[4 + len(src_key):]] = v
                elif k.startswith("*"):
                    pass
                else:
                    st.store[key + k[len(src_key):]] = v
                    # where a field of a moved struct came from moves with it
                    if not key.startswith("(*") and "[" not in k and (k in self.origin or k.startswith("(*_")):
                        self.origin[key + k[len(src_key):]] = self.origin.get(k, k)
        self.decompose(st, key, val)
        if rv["k"] == "agg" and rv.get("ak") in ("adt", "tuple") and not key.startswith("(*"):
            # a struct / tuple built from copies: each field remembers the place it was copied from (a helper value such as
            # `FixedPart { priority: self.priority, .. }` written field by field is `self.priority` written)
            fnames = rv.get("fields") if rv.get("ak") == "adt" else [str(i) for i in range(len(rv["ops"]))]
            for f0, o0 in zip(fnames or [], rv["ops"]):
                if o0.get("o") in ("copy", "move"):
                    sk = self.key_of(st, o0["pl"], bi, si)
                    if "[" not in sk:
                        self.origin["%s.%s" % (key, f0)] = self.origin.get(sk, sk)
        if val is None and dest_ty["k"] in ("int", "bool", "char"):
            st.store[key] = ("lin", self.sym("v%d.%d" % (bi, si), int_range(dest_ty)))
        # track Ok/Err tags flowing into the return place
        if key == "_0" and self.final:
            v = st.store.get("_0")
            self.ok_points.append((bi, st.copy(), v))

    # ------------------------------------------------------------------ obligations
    def ob(self, bi, kind, what, sp, fsp=None):
        use = fsp if (fsp is not None and fsp.get("sn")) else sp
        o = Obligation(bi, kind, what, sp, (use.get("sn") or sp.get("sn") or ""), sp.get("exp"))
        return o

    def prove_all(self, st, o, goals):
        """goals: list of (Lin e, text) meaning e <= 0"""
        o.goals = goals
        bad = [(e, txt) for e, txt in goals if e is None or not self.holds(st, e)]
        o.failed = bad
        o.ok = not bad
        if bad:
            o.detail = "; ".join("cannot show %s   [%s <= 0]" % (txt, e) for e, txt in bad)
        return o.ok

    def finish_ob(self, o):
        if self.final:
            self.obligations.append(o)

    def check_index(self, st, o, ln, idx, idx_ty):
        """obligation shapes for container[idx]"""
        if ln is None:
            o.ok = False
            o.detail = "length of the indexed value is not tracked"
            return
        if idx is None:
            o.ok = False
            o.detail = "index value is not tracked"
            return
        k = idx[0]
        if k == "lin":
            goals = [(idx[1] + 1 - ln, "index < len")]
            post = [idx[1] + 1 - ln]
        elif k == "range":
            lo, hi = idx[1], idx[2]
            if lo is None or hi is None:
                o.detail = "range bound not tracked"
                return
            goals = [(lo - hi, "start <= end"), (hi - ln, "end <= len")]
            post = [lo - hi, hi - ln]
        elif k == "rangeto":
            if idx[1] is None:
                o.detail = "range bound not tracked"
                return
            goals = [(idx[1] - ln, "end <= len")]
            post = [idx[1] - ln]
        elif k == "rangefrom":
            if idx[1] is None:
                o.detail = "range bound not tracked"
                return
            goals = [(idx[1] - ln, "start <= len")]
            post = [idx[1] - ln]
        elif k == "rangefull":
            goals, post = [], []
        elif k == "adt" and idx[1] == "RangeInclusive":
            o.detail = "RangeInclusive index not modelled"
            return
        else:
            o.detail = "index kind %s not modelled" % k
            return
        self.prove_all(st, o, goals)
        for p in post:
            st.facts.add(p)

    def slice_result(self, st, dest_key, ln, idx, bi):
        """value of container[range]"""
        if idx is None or ln is None:
            return None
        k = idx[0]
        sid = "s%d" % bi
        if k == "range" and idx[1] is not None and idx[2] is not None:
            nl = idx[2] - idx[1]
        elif k == "rangeto" and idx[1] is not None:
            nl = idx[1]
        elif k == "rangefrom" and idx[1] is not None:
            nl = ln - idx[1]
        elif k == "rangefull":
            nl = ln
        else:
            return None
        st.store["len:" + sid] = ("lin", nl)
        lo = idx[1] if k in ("range", "rangefrom") else Lin.const(0)
        self.bases[sid] = (self._parent_sid, lo)
        return ("slice", sid)

    def root_of(self, sid):
        """(root slice id, offset Lin from its start)"""
        off = Lin.const(0)
        seen = 0
        while sid in self.bases and seen < 8:
            p, lo = self.bases[sid]
            if p is None or lo is None:
                break
            off = off + lo
            sid = p
            seen += 1
        return sid, off

    # ------------------------------------------------------------------ terminators
    def do_assert(self, st, t, bi):
        m = t["msg"]
        ak = m["ak"]
        sp = t["sp"]
        if ak in ("resumed_after_return", "resumed_after_panic", "resumed_after_drop", "misaligned", "nullptr",
                  "invalid_enum"):
            return
        o = self.ob(bi, "assert:" + ak + (":" + m["op"] if ak == "overflow" else ""), ak, sp)
        if ak == "bounds":
            ln = self.as_lin(self.eval_op(st, m["len"], bi, -1))
            ix = self.as_lin(self.eval_op(st, m["index"], bi, -1))
            if ln is None or ix is None:
                o.detail = "index or length not tracked"
            else:
                self.prove_all(st, o, [(ix + 1 - ln, "index < len")])
                st.facts.add(ix + 1 - ln)
        elif ak == "overflow":
            a = self.as_lin(self.eval_op(st, m["a"], bi, -1))
            b = self.as_lin(self.eval_op(st, m["b"], bi, -1))
            ty = self.op_ty(m["a"])
            op = m["op"]
            r = int_range(ty) if ty else None
            if op in ("Shl", "Shr"):
                if b is not None and ty is not None:
                    self.prove_all(st, o, [(b - (ty["w"] - 1), "shift amount < bit width"), (Lin.const(0) - b, "shift amount >= 0")])
                else:
                    o.detail = "shift amount not tracked"
            elif a is None or b is None or r is None:
                o.detail = "operand not tracked"
            else:
                if op == "Add":
                    res = a + b
                elif op == "Sub":
                    res = a - b
                elif op == "Mul":
                    if b.is_const():
                        res = a.scale(b.c)
                    elif a.is_const():
                        res = b.scale(a.c)
                    else:
                        res = None
                else:
                    res = None
                if res is None:
                    ha, hb = ub(a, self.iv), ub(b, self.iv)
                    if lb(a, self.iv) >= 0 and lb(b, self.iv) >= 0 and ha < INF and hb < INF and ha * hb <= r[1]:
                        o.ok = True
                        o.why = "interval product fits"
                    else:
                        o.detail = "non-linear product not bounded"
                elif is_wide(ty) and not ty["sg"] and op in ("Add", "Mul"):
                    # A-OVF: 64-bit unsigned add / mul-by-constant cannot wrap without >= 2^63 bytes of input
                    o.ok = True
                    o.why = "A-OVF"
                    o.kind += ":wide"
                else:
                    goals = []
                    if op == "Sub" and not ty["sg"]:
                        goals.append((b - a, "rhs <= lhs (unsigned subtraction)"))
                    else:
                        goals.append((res - r[1], "result <= %d" % r[1]))
                        goals.append((Lin.const(r[0]) - res, "result >= %d" % r[0]))
                    self.prove_all(st, o, goals)
                    for e, _ in goals:
                        st.facts.add(e)
        elif ak == "overflow_neg":
            o.detail = "negation overflow not modelled"
        elif ak in ("div_zero", "rem_zero"):
            # the message operand is the dividend; the divisor is in the asserted condition Eq(divisor, 0)
            c = self.eval_op(st, t["cond"], bi, -1)
            if c is not None and c[0] == "bool" and c[1] == "Eq" and not t["expected"]:
                d = c[2] - c[3]
                if self.holds(st, Lin.const(1) - d) or self.holds(st, d + 1):
                    o.ok = True
                else:
                    o.detail = "cannot show divisor != 0   [%r]" % d
            else:
                o.detail = "divisor not tracked"
        self.finish_ob(o)

    def src_of(self, st, op, bi):
        """source description of an operand: the canonical place it was copied from"""
        if op["o"] == "const":
            k = op["k"]
            return ("const", int(k["v"])) if k["c"] == "int" else ("const", None)
        pl = op["pl"]
        key = self.key_of(st, pl, bi, -3)
        okey = self.origin.get(key, key)
        # a temporary that holds a compile-time constant on this path (`let tag = match self { A => 0, .. }` under a known variant)
        if not pl["p"] and okey.startswith("_") and okey[1:].isdigit() and int(okey[1:]) > self.b.argc:
            v = st.store.get(key)
            if v is not None and v[0] == "lin" and v[1].is_const():
                return ("const", v[1].c)
        return ("place", okey)

    def describe_bytes(self, st, v):
        """what the byte slice handed to write_all consists of"""
        if v is None:
            return ("unknown",)
        if v[0] == "slice":
            sid = v[1]
            src = st.store.get("src:" + sid)
            arr = st.store.get(src[1]) if src is not None else None
            if arr is not None and arr[0] == "bytes":
                return ("int", arr[2], arr[3], arr[4])
            if arr is not None and arr[0] == "array":
                parts = arr[2] if len(arr) > 2 and arr[2] else ()
                if parts and all(x is not None and x[0] == "bytepart" for x in parts) and \
                        len(set((x[1], x[2], repr(x[3])) for x in parts)) == 1 and \
                        [x[4] for x in parts] == list(range(parts[0][4], parts[0][4] + len(parts))):
                    # consecutive bytes of one integer's byte image: the same as `&x.to_be_bytes()[a..b]`
                    return ("int-part", parts[0][1], parts[0][2], parts[0][3], Lin.const(parts[0][4]), Lin.const(len(parts)))
                return ("array", arr[1], arr[3] if len(arr) > 3 else None)
            if sid in self.bases:
                root, off = self.root_of(sid)
                src2 = st.store.get("src:" + root)
                arr2 = st.store.get(src2[1]) if src2 is not None else st.store.get(root)
                if arr2 is not None and arr2[0] == "bytes":
                    return ("int-part", arr2[2], arr2[3], arr2[4], off, st.store.get("len:" + sid, (None, None))[1])
            return ("raw", self.origin.get(sid, sid))
        if v[0] == "ref":
            arr = st.store.get(v[1])
            if arr is not None and arr[0] == "bytes":
                return ("int", arr[2], arr[3], arr[4])
            return ("raw", self.origin.get(v[1], v[1]))
        return ("unknown",)

    def dispatch_summary(self, bi):
        """weakest writer summary over the call-graph candidates of a trait-dispatched call in block bi"""
        cands = self.dispatch.get(bi) if self.dispatch else None
        if not cands:
            return None
        mins = []
        for cid in cands:
            s = self.summaries.get(cid)
            if not s or s.get("w_adv_min") is None:
                return None
            mins.append(s["w_adv_min"])
        return {"w_adv_min": min(mins)}

    def havoc_args(self, st, args, vals, bi):
        for a, v in zip(args, vals):
            self.havoc_val(st, a, v, bi)

    def havoc_val(self, st, a, v, bi, depth=0):
        if v is None:
            # an untracked aggregate local moved into the call: anything borrowed mutably inside it
            if a is not None and a["o"] in ("copy", "move"):
                key = self.key_of(st, a["pl"], bi, -2)
                for k2, v2 in list(st.store.items()):
                    if _is_prefix(key, k2) and k2 != key and v2 is not None and v2[0] == "ref" and len(v2) > 2 and v2[2]:
                        self.kill(st, v2[1])
            return
        if v[0] == "ref" and len(v) > 2 and v[2]:
            if v[1] in self.origin.cloned:
                self.origin.dead.add(v[1])
            self.kill(st, v[1])
        elif v[0] == "slice":
            t = self.op_ty(a) if a is not None else None
            if t is not None and t["k"] == "ref" and t["mut"]:
                # contents may change, length cannot
                for k2 in [k for k in st.store if k.startswith("*" + v[1] + "[") or k.startswith(v[1] + "[")]:
                    del st.store[k2]
                src = st.store.get("src:" + v[1])
                if src is not None:
                    for k2 in [k for k in st.store if _is_prefix(src[1], k) and not k.startswith("len:") and k != src[1]]:
                        del st.store[k2]
        elif v[0] in ("closure", "tuple") and depth < 3:
            for x in (v[2] if v[0] == "closure" else v[1]):
                self.havoc_val(st, None, x, bi, depth + 1)
        elif v[0] == "adt" and depth < 3:
            for x in v[3]:
                self.havoc_val(st, None, x, bi, depth + 1)

    def do_call(self, st, t, bi):
        c = t["callee"]
        args = t["args"]
        vals = [self.eval_op(st, a, bi, -1) for a in args]
        dest_key = self.key_of(st, t["dest"], bi, -1)
        dest_ty = self.types[t["dest"]["t"]]
        sp = t["sp"]
        name = c["def"] if c else "<indirect>"
        ev = {"bi": bi, "callee": c, "vals": vals, "args": args, "dest": dest_key, "sp": sp, "st": None}
        result = None
        handled = False
        cat = self.cat(name) if c else ("indirect", "never", "call through a function pointer")
        # ---- obligations from the partial-function catalogue
        if cat is not None and cat[1] != "total":
            kind, rule = cat[0], cat[1]
            o = self.ob(bi, "call:" + kind, name, sp, t.get("fsp"))
            if rule == "range":
                ln = self.slice_len_of_val(st, vals[0], self.op_ty(args[0])) if vals else None
                idx = vals[1] if len(vals) > 1 else None
                self.check_index(st, o, ln, idx, None)
                if idx is not None and idx[0] != "lin":
                    self._parent_sid = vals[0][1] if (vals[0] is not None and vals[0][0] in ("slice", "ref")) else None
                    result = self.slice_result(st, dest_key, ln, idx, bi)
                    if self.final and result is not None:
                        r0, off0 = self.root_of(result[1])
                        self.slices.append({"bi": bi, "sid": result[1], "root": r0, "off": off0, "kind": idx[0],
                                            "len": st.store["len:" + result[1]][1], "sp": sp})
                    if result is not None and vals[0] is not None and vals[0][0] in ("slice", "ref"):
                        ev["slice_of"] = vals[0][1]
                handled = True
            elif rule == "len_eq":
                l0 = self.slice_len_of_val(st, vals[0], self.op_ty(args[0]))
                l1 = self.slice_len_of_val(st, vals[1], self.op_ty(args[1]))
                if l0 is None or l1 is None:
                    o.detail = "length not tracked"
                else:
                    self.prove_all(st, o, [(l0 - l1, "dst.len() <= src.len()"), (l1 - l0, "src.len() <= dst.len()")])
            elif rule in ("lt_len", "le_len"):
                ln = self.slice_len_of_val(st, vals[0], self.op_ty(args[0]))
                ix = self.as_lin(vals[1]) if len(vals) > 1 else None
                if ln is None or ix is None:
                    o.detail = "index or length not tracked"
                else:
                    self.prove_all(st, o, [(ix + (1 if rule == "lt_len" else 0) - ln, "index in range")])
            elif rule == "ge1":
                x = self.as_lin(vals[1]) if len(vals) > 1 else None
                if x is None:
                    o.detail = "size not tracked"
                else:
                    self.prove_all(st, o, [(Lin.const(1) - x, "size >= 1")])
            elif rule == "alloc_bound":
                x = self.as_lin(vals[-1]) if vals else None
                if x is None:
                    o.detail = "requested capacity not tracked"
                else:
                    if ub(x, self.iv) <= ALLOC_CONST:
                        o.ok = True
                        o.why = "capacity <= %d elements by type/interval" % ub(x, self.iv)
                    else:
                        # or bounded by the length of a parameter slice plus a small constant
                        okb = False
                        for k2, v2 in st.store.items():
                            if k2.startswith("len:_") and v2[0] == "lin" and self.holds(st, x - v2[1] - ALLOC_CONST):
                                okb = True
                                o.why = "capacity <= len(%s) + %d" % (k2[4:], ALLOC_CONST)
                        o.ok = okb
                        if not okb:
                            o.detail = ("requested capacity %r (up to %s elements) is bounded neither by a constant <= %d nor by the "
                                        "input length: a few input bytes can drive the allocation" % (x, ub(x, self.iv), ALLOC_CONST))
            elif rule in ("known_ok", "known_some"):
                v = vals[0] if vals else None
                o.unwrap_of = v
                if v is not None and v[0] == "known" and v[1] in ("Ok", "Some"):
                    o.ok = True
                    o.why = v[2]
                elif v is not None and v[0] == "callres" and self.pending.get(v[1], {}).get("known"):
                    o.ok = True
                    o.why = self.pending[v[1]]["known"][1]
                elif v is not None and v[0] == "lockres":
                    o.kind = "call:lock_unwrap"
                    o.detail = "LockResult::unwrap panics when the lock is poisoned"
                else:
                    o.detail = "value is not known to be %s" % ("Ok" if rule == "known_ok" else "Some")
            elif rule == "duration_u32":
                v = vals[1] if len(vals) > 1 else None
                if v is not None and v[0] == "duration" and v[1] is not None and ub(v[1], self.iv) <= (1 << 33):
                    o.ok = True
                    o.why = "duration <= 2^33 s"
                elif len(args) > 1 and args[1].get("o") == "const":
                    # a named constant (`const REFRESH_INTERVAL: Duration = ..`): the sum does not depend on any input, it
                    # overflows on every run or on none
                    o.ok = True
                    o.why = "compile-time constant duration"
                else:
                    o.detail = "duration operand is not bounded"
            else:
                o.detail = cat[2] if len(cat) > 2 else "partial function"
            self.finish_ob(o)
        # ---- value modelling
        if c is not None and not handled and c.get("name") in ("eq", "ne") and len(vals) == 2 and \
                name.endswith(("as std::cmp::PartialEq>::eq", "as std::cmp::PartialEq>::ne")):
            # derived equality of a fieldless enum whose two sides are known variants (a mode flag written as an enum)
            sides = []
            for v in vals:
                tv = st.store.get(v[1]) if v is not None and v[0] == "ref" else None
                sides.append(tv if tv is not None and tv[0] == "adt" and not tv[3] else None)
            if sides[0] is not None and sides[1] is not None and sides[0][1] == sides[1][1]:
                ia, ib = self.variant_index(sides[0][1], sides[0][2]), self.variant_index(sides[1][1], sides[1][2])
                if ia is not None and ib is not None:
                    result = ("bool", "Eq" if c["name"] == "eq" else "Ne", Lin.const(ia), Lin.const(ib))
                    handled = True
        if c is not None and not handled:
            if LEN_LIKE.search(name) and vals:
                ln = self.slice_len_of_val(st, vals[0], self.op_ty(args[0]))
                if ln is not None:
                    result = ("lin", ln)
                handled = True
            elif EMPTY_LIKE.search(name) and vals:
                ln = self.slice_len_of_val(st, vals[0], self.op_ty(args[0]))
                if ln is not None:
                    result = ("bool", "Eq", ln, Lin.const(0))
                handled = True
            elif DEREF_LIKE.search(name) and vals and vals[0] is not None:
                v = vals[0]
                if v[0] == "ref":
                    result = ("slice", v[1])
                elif v[0] == "slice":
                    result = v
                handled = True
            elif name.endswith("::Try>::branch") and vals:
                v = vals[0]
                if v is not None and v[0] == "callres":
                    result = ("branch", v[1])
                    self.write(st, dest_key, result)
                    self.copy_tree(st, self.key_of(st, args[0]["pl"], bi, -1) + "@Ok", dest_key + "@Continue")
                    if self.final:
                        self.events.append(ev)
                    return
                elif v is not None and v[0] == "adt" and v[2] in ("Ok", "Some") and args[0]["o"] in ("copy", "move"):
                    self.write(st, dest_key, ("adt", "ControlFlow", "Continue", (), ()))
                    ak = self.key_of(st, args[0]["pl"], bi, -1)
                    self.copy_tree(st, ak + "@" + v[2], dest_key + "@Continue")
                    if self.final:
                        self.events.append(ev)
                    return
                elif v is not None and v[0] == "adt" and v[2] in ("Ok", "Some"):
                    result = ("adt", "ControlFlow", "Continue", (), ())
                elif v is not None and v[0] == "adt" and v[2] in ("Err", "None"):
                    result = ("adt", "ControlFlow", "Break", (), ())
                elif v is None and args[0]["o"] in ("copy", "move"):
                    # variant not known here (e.g. after a join of an Err and an Ok path): the Continue payload, when the
                    # result is Continue, is still the Ok / Some payload of the argument
                    self.write(st, dest_key, None)
                    ak = self.key_of(st, args[0]["pl"], bi, -1)
                    self.copy_tree(st, ak + "@Ok", dest_key + "@Continue")
                    self.copy_tree(st, ak + "@Some", dest_key + "@Continue")
                    if self.final:
                        self.events.append(ev)
                    return
                handled = True
            elif "::FromResidual<" in name and name.endswith("::from_residual"):
                # `?` on the error path: the function returns the converted residual
                result = ("adt", "Result", "Err", (), ())
                handled = True
            elif OK_PRESERVING.search(name) and vals:
                if vals[0] is not None and vals[0][0] == "callres":
                    result = vals[0]
                self.havoc_args(st, args[1:], vals[1:], bi)
                handled = True
            elif INT_CONV.search(name):
                r = int_range(dest_ty)
                la = self.as_lin(vals[0]) if vals else None
                m_ = re.search(r"::(from_be_bytes|from_le_bytes|from_ne_bytes)$", name)
                if m_ and vals and vals[0] is not None and vals[0][0] == "array" and r is not None and vals[0][2] and \
                        all(x is not None and x[0] == "lin" and len(x[1].t) == 1 and x[1].c == 0 and x[1].t[0][0].startswith("elem(") for x in vals[0][2]):
                    # `from_be_bytes([data[p], data[p + 1], ..])`: single-byte reads at consecutive offsets of one slice are one
                    # multi-byte read at the first offset
                    names_ = [x[1].t[0][0] for x in vals[0][2]]
                    offs_ = [self.elem_index.get(nm_) for nm_ in names_]
                    roots_ = []
                    for nm_ in names_:
                        mm_ = re.match(r"^elem\(\*?(.*)\[.*\]\)$", nm_)
                        roots_.append(self.root_of(mm_.group(1)) if mm_ else (None, None))
                    okc_ = all(o is not None for o in offs_) and len(set(rt_[0] for rt_ in roots_)) == 1 and roots_[0][0] is not None
                    if okc_:
                        base_ = roots_[0][1] + offs_[0]
                        okc_ = all((roots_[i][1] + offs_[i]) - base_ == Lin.const(i if m_.group(1) != "from_le_bytes" else i)
                                   for i in range(len(offs_)))
                    if okc_ and len(names_) * 8 == dest_ty["w"]:
                        s_ = self.sym("rd%d" % bi, r)
                        if self.final:
                            self.reads.append({"bi": bi, "sym": "rd%d" % bi, "root": roots_[0][0], "off": base_, "width": len(names_),
                                               "order": {"from_be_bytes": "BE", "from_le_bytes": "LE", "from_ne_bytes": "NE"}[m_.group(1)],
                                               "signed": dest_ty["sg"], "sp": sp})
                            for e_ in self.elems:
                                if e_["sym"] in names_:
                                    e_["covered"] = "rd%d" % bi      # part of this multi-byte read (kept for rules that ask for it)
                        self.write(st, dest_key, ("lin", s_))
                        if self.final:
                            self.events.append(ev)
                        return
                if m_ and vals and vals[0] is not None and vals[0][0] == "arr" and r is not None:
                    s_ = self.sym("rd%d" % bi, r)
                    root, off = self.root_of(vals[0][1])
                    if self.final:
                        self.reads.append({"bi": bi, "sym": "rd%d" % bi, "root": root, "off": off, "width": dest_ty["w"] // 8,
                                           "order": {"from_be_bytes": "BE", "from_le_bytes": "LE", "from_ne_bytes": "NE"}[m_.group(1)],
                                           "signed": dest_ty["sg"], "sp": sp})
                    self.write(st, dest_key, ("lin", s_))
                    if self.final:
                        self.events.append(ev)
                    return
                if la is not None and la.is_const() and name.endswith("::trailing_zeros"):
                    pass
                m2_ = re.search(r"::(to_be_bytes|to_le_bytes|to_ne_bytes)$", name)
                if m2_ and vals:
                    ta_ = self.op_ty(args[0])
                    self.write(st, dest_key, ("bytes", vals[0], {"to_be_bytes": "BE", "to_le_bytes": "LE", "to_ne_bytes": "NE"}[m2_.group(1)],
                                              (ta_["w"] // 8) if ta_ and ta_["k"] == "int" else None,
                                              self.src_of(st, args[0], bi)))
                    if self.final:
                        self.events.append(ev)
                    return
                if m_ and vals and vals[0] is not None and vals[0][0] == "array" and r is not None and vals[0][2]:
                    # u16::from_be_bytes([data[i], data[i + 1]]) and the zero-padded u24 / u48 forms
                    elems = []
                    for x in vals[0][2]:
                        lx = self.as_lin(x)
                        if lx is not None and lx.is_const() and lx.c == 0 and not elems:
                            continue
                        mm = re.match(r"^elem\(\*?(.*)\[(.*)\]\)$", lx.t[0][0]) if (lx is not None and len(lx.t) == 1 and lx.c == 0) else None
                        elems.append(mm)
                    if elems and all(elems) and len(set(e.group(1) for e in elems)) == 1:
                        s_ = self.sym("rd%d" % bi, r)
                        sid0 = elems[0].group(1)
                        root, off = self.root_of(sid0)
                        first_ix = self.elem_index.get(vals[0][2][len(vals[0][2]) - len(elems)][1].t[0][0])
                        if first_ix is not None and self.final:
                            self.reads.append({"bi": bi, "sym": "rd%d" % bi, "root": root, "off": off + first_ix, "width": len(elems),
                                               "order": {"from_be_bytes": "BE", "from_le_bytes": "LE", "from_ne_bytes": "NE"}[m_.group(1)],
                                               "signed": dest_ty["sg"], "sp": sp, "padded_to": dest_ty["w"] // 8})
                        self.write(st, dest_key, ("lin", s_))
                        if self.final:
                            self.events.append(ev)
                        return
                if name.endswith(("::to_be", "::from_be", "::to_le", "::from_le")) and dest_ty["k"] == "int" and dest_ty["w"] == 8 and la is not None:
                    if args[0]["o"] in ("copy", "move"):
                        sk_ = self.key_of(st, args[0]["pl"], bi, -4)
                        self.origin[dest_key] = self.origin.get(sk_, sk_)
                    result = ("lin", la)
                elif name.endswith("::min") and len(vals) > 1 and la is not None and self.as_lin(vals[1]) is not None:
                    s = self.sym("min%d" % bi, r)
                    st.facts.add(s - la)
                    st.facts.add(s - self.as_lin(vals[1]))
                    result = ("lin", s)
                elif name.endswith("::saturating_sub") and len(vals) > 1 and la is not None and r is not None:
                    s = self.sym("ssub%d" % bi, (0, r[1]))
                    st.facts.add(s - la)          # a.saturating_sub(b) <= a
                    result = ("lin", s)
                elif r is not None:
                    result = ("lin", self.sym("conv%d" % bi, r))
                handled = True
            elif name in ("std::cmp::Ord::min", "std::cmp::min") and len(vals) == 2 and self.as_lin(vals[0]) is not None \
                    and self.as_lin(vals[1]) is not None and dest_ty["k"] == "int":
                s = self.sym("min%d" % bi, int_range(dest_ty))
                st.facts.add(s - self.as_lin(vals[0]))
                st.facts.add(s - self.as_lin(vals[1]))
                result = ("lin", s)
                handled = True
            elif name.endswith("::trailing_zeros") and vals:
                la = self.as_lin(vals[0])
                if la is not None and la.is_const() and la.c > 0:
                    result = ("lin", Lin.const((la.c & -la.c).bit_length() - 1))
                else:
                    result = ("lin", self.sym("tz%d" % bi, (0, 128)))
                handled = True
            elif WIDEN.search(name) and vals:
                result = vals[0]
                handled = True
            elif name in ("<T as std::convert::Into<U>>::into", "<T as std::convert::From<T>>::from") and vals:
                ta = self.op_ty(args[0])
                if ta and ta["k"] in ("int", "bool") and dest_ty["k"] == "int":
                    ra, rd = int_range(ta), int_range(dest_ty)
                    if rd[0] <= ra[0] and ra[1] <= rd[1]:
                        result = vals[0]
                        handled = True
                elif ta == dest_ty:
                    result = vals[0]
                    handled = True
            elif name.endswith("as std::iter::IntoIterator>::into_iter") and vals and c["def"].startswith("<I as"):
                result = vals[0]
                if args[0]["o"] in ("copy", "move"):
                    self.copy_tree(st, self.key_of(st, args[0]["pl"], bi, -1), dest_key)
                    saved_tree = [(k, v) for k, v in st.store.items() if _is_prefix(dest_key, k) and k != dest_key]
                    self.write(st, dest_key, result)
                    for k, v in saved_tree:
                        st.store[k] = v
                    ev["st"] = None
                    self.events.append(ev) if self.final else None
                    return
                handled = True
            elif name == "std::iter::range::<impl std::iter::Iterator for std::ops::Range<A>>::next" and vals:
                v = vals[0]
                if v is not None and v[0] == "ref":
                    K = v[1]
                    start = self.as_lin(st.store.get(K + ".start"))
                    end = self.as_lin(st.store.get(K + ".end"))
                    i = self.sym("it%d" % bi, int_range(self.types[dest_ty["args"][0]]) if dest_ty.get("args") else (0, USIZE_HI))
                    facts = []
                    stores = []
                    if end is not None:
                        facts.append(i - end + 1)
                    if start is not None:
                        # Some(i): i is the old start and the new start is i + 1; None: the range is unchanged
                        facts.append(start - i)
                        facts.append(i - start)
                        stores.append((K + ".start", ("lin", i + 1)))
                    else:
                        self.kill(st, K + ".start")
                    cs = "opt%d" % bi
                    self.pending[cs] = {"variant_facts": {1: facts}, "variant_stores": {1: stores}}
                    if K in st.store:
                        del st.store[K]
                    result = ("callres", cs)
                    self.write(st, dest_key, result)
                    st.store[dest_key + "@Some.0"] = ("lin", i)
                    if self.final:
                        self.events.append(ev)
                    return
            elif name in ("<std::slice::Iter<'a, T> as std::iter::Iterator>::position", "<std::slice::Iter<'a, T> as std::iter::Iterator>::rposition") \
                    and vals and vals[0] is not None and vals[0][0] == "ref" and (st.store.get(vals[0][1]) or (None,))[0] == "iter":
                # Some(i): an index into the slice the iterator runs over
                ln = self.length_of(st, st.store[vals[0][1]][1])
                i = self.sym("pos%d" % bi, (0, USIZE_HI))
                cs = "opt%d" % bi
                self.pending[cs] = {"variant_facts": {1: [i + 1 - ln] if ln is not None else []}}
                self.write(st, dest_key, ("callres", cs))
                st.store[dest_key + "@Some.0"] = ("lin", i)
                if self.final:
                    self.events.append(ev)
                return
            elif name == "std::mem::replace" and vals and vals[0] is not None and vals[0][0] == "ref":
                K = vals[0][1]
                result = st.store.get(K)
                self.write(st, K, vals[1])
                self.write(st, dest_key, result)
                if result is None and dest_ty["k"] == "int":
                    st.store[dest_key] = ("lin", self.sym("old%d" % bi, int_range(dest_ty)))
                if self.final:
                    self.events.append(ev)
                return
            elif RECV_FROM.search(name) and len(vals) >= 2:
                buf = vals[1]
                self.havoc_args(st, args, vals, bi)
                n = self.sym("n%d" % bi, (0, USIZE_HI))
                ln = self.slice_len_of_val(st, buf, self.op_ty(args[1]))
                cs = "io%d" % bi
                self.pending[cs] = {"variant_facts": {0: [n - ln] if ln is not None else []}}
                self.write(st, dest_key, ("callres", cs))
                payload = dest_key + "@Ok.0"
                if name.endswith(("recv_from", "peek_from")):
                    st.store[payload + ".0"] = ("lin", n)
                else:
                    st.store[payload] = ("lin", n)
                if self.final:
                    self.events.append(ev)
                return
            elif name in ("std::io::Write::write_all", "std::io::Seek::stream_position", "std::io::Seek::seek",
                          "std::io::Write::flush") and vals and vals[0] is not None and vals[0][0] == "ref":
                # writer-position model (assumption A-SEEK: a writer's position advances by the bytes written)
                K = vals[0][1]
                wk = "wpos:" + K
                before = self.as_lin(st.store.get(wk))
                if before is None:
                    before = self.sym("wpos(%s)@%d" % (K, bi), (0, USIZE_HI))
                    st.store[wk] = ("lin", before)
                cs = "io%d" % bi
                ev["writer"] = (K, before)
                if name.endswith("write_all"):
                    ln = self.slice_len_of_val(st, vals[1], self.op_ty(args[1])) if len(vals) > 1 else None
                    if self.final:
                        self.emits.append({"bi": bi, "kind": "bytes", "len": ln, "src": self.describe_bytes(st, vals[1] if len(vals) > 1 else None),
                                           "sp": sp})
                    after = self.sym("wpos(%s)@%d'" % (K, bi), (0, USIZE_HI))
                    facts = [before - after]
                    if ln is not None:
                        facts = [before + ln - after, after - before - ln]
                        ev["wrote"] = ln
                    st.store[wk] = ("lin", after)
                    self.pending[cs] = {"variant_facts": {0: facts}}
                    if ln is not None:
                        # on the Ok edge the position is exactly before + len (keeps chains of writes linear)
                        self.pending[cs] = {"variant_facts": {0: []}, "variant_stores": {0: [(wk, ("lin", before + ln))]}}
                    self.write(st, dest_key, ("callres", cs))
                elif name.endswith("stream_position"):
                    self.pending[cs] = {"variant_facts": {0: []}}
                    self.write(st, dest_key, ("callres", cs))
                    st.store[dest_key + "@Ok.0"] = ("lin", before)
                elif name.endswith("seek"):
                    after = self.sym("wpos(%s)@%d'" % (K, bi), (0, USIZE_HI))
                    facts = []
                    sv = vals[1] if len(vals) > 1 else None
                    if sv is not None and sv[0] == "adt" and sv[1] == "SeekFrom":
                        ev["seek"] = (sv[2], sv[3][0] if sv[3] else None)
                        if sv[2] == "Start" and sv[3] and sv[3][0] is not None and sv[3][0][0] == "lin":
                            facts = [sv[3][0][1] - after, after - sv[3][0][1]]
                    st.store[wk] = ("lin", after)
                    self.pending[cs] = {"variant_facts": {0: facts}}
                    if facts:
                        self.pending[cs] = {"variant_facts": {0: []}, "variant_stores": {0: [(wk, ("lin", sv[3][0][1]))]}}
                    self.write(st, dest_key, ("callres", cs))
                    st.store[dest_key + "@Ok.0"] = ("lin", after)
                else:
                    self.pending[cs] = {"variant_facts": {0: []}}
                    self.write(st, dest_key, ("callres", cs))
                if self.final:
                    ev["st"] = st.copy()
                    self.events.append(ev)
                return
            elif re.search(r"^core::slice::<impl \[T\]>::(iter|iter_mut)$|^core::slice::iter::<impl std::iter::IntoIterator for &'a (mut )?\[T\]>::into_iter$",
                           name) and vals and vals[0] is not None and vals[0][0] == "slice":
                # `for x in slice` is `for x in slice.iter()`
                result = ("iter", vals[0][1])
                handled = True
            elif re.search(r"^<std::vec::Vec<T, A> as std::clone::Clone>::clone$|^std::slice::<impl \[T\]>::to_vec$", name) and vals \
                    and vals[0] is not None and vals[0][0] in ("ref", "slice"):
                # a clone has the length (and contents) of its source
                src_k = vals[0][1]
                self.havoc_args(st, args, vals, bi)
                self.write(st, dest_key, None)
                st.store["len:" + dest_key] = ("lin", self.length_of(st, src_k))
                self.origin[dest_key] = self.origin.get(src_k, src_k)
                self.origin.cloned.add(dest_key)
                if self.final:
                    self.events.append(ev)
                return
            elif name == "std::iter::Iterator::map" and len(vals) == 2 and vals[0] is not None and vals[0][0] == "iter" \
                    and vals[1] is not None and (vals[1][0] == "closure" or (vals[1][0] == "fn" and isinstance(vals[1][1], dict))):
                # the mapped function: a closure, or a (nested) fn item passed by name
                result = ("mapiter", vals[0][1], vals[1][1] if vals[1][0] == "closure" else vals[1][1].get("id"))
                handled = True
            elif name == "std::iter::Iterator::sum" and vals and vals[0] is not None and vals[0][0] == "mapiter":
                result = ("lin", self.sym("SUM[%s](%s)" % (vals[0][2], self.origin.get(vals[0][1], vals[0][1])), (0, USIZE_HI)))
                handled = True
            elif re.search(r"^<&'a std::(vec::Vec|collections::BTreeMap|collections::HashMap|collections::HashSet)<.*> as std::iter::IntoIterator>::into_iter$", name) \
                    and vals and vals[0] is not None and vals[0][0] == "ref":
                result = ("iter", vals[0][1])
                handled = True
            elif re.search(r"^std::collections::(BTreeMap|HashMap)::<K, V(, S)?, A>::(values|iter|keys)$", name) and vals and vals[0] is not None \
                    and vals[0][0] == "ref":
                result = ("iter", vals[0][1])
                handled = True
            elif name in ("std::iter::Iterator::enumerate",) and vals and vals[0] is not None and vals[0][0] == "iter":
                result = ("enumiter", vals[0][1])
                handled = True
            elif name.endswith("as std::iter::Iterator>::next") and name.startswith("<std::iter::Enumerate<") and vals \
                    and vals[0] is not None and vals[0][0] == "ref":
                itv = st.store.get(vals[0][1])
                if itv is not None and itv[0] == "enumiter":
                    ln = self.length_of(st, itv[1])
                    i = self.sym("en%d" % bi, (0, USIZE_HI))
                    cs = "opt%d" % bi
                    self.pending[cs] = {"variant_facts": {1: [i + 1 - ln]}}
                    self.write(st, dest_key, ("callres", cs))
                    st.store[dest_key + "@Some.0.0"] = ("lin", i)
                    if self.final:
                        self.events.append(ev)
                    return
            elif re.search(r"^core::slice::<impl \[T\]>::get$", name) and len(vals) == 2 and vals[1] is not None and \
                    vals[1][0] in ("range", "rangeto", "rangefrom", "rangefull"):
                # checked slicing: Some(&s[range]) exactly when the range lies within the slice
                ln = self.slice_len_of_val(st, vals[0], self.op_ty(args[0]))
                idx = vals[1]
                self._parent_sid = vals[0][1] if (vals[0] is not None and vals[0][0] in ("slice", "ref")) else None
                sres = self.slice_result(st, dest_key, ln, idx, bi)
                if sres is not None and ln is not None:
                    k0 = idx[0]
                    facts = []
                    if k0 == "range":
                        facts = [idx[1] - idx[2], idx[2] - ln]
                    elif k0 == "rangeto":
                        facts = [idx[1] - ln]
                    elif k0 == "rangefrom":
                        facts = [idx[1] - ln]
                    cs = "opt%d" % bi
                    self.pending[cs] = {"variant_facts": {1: facts}}
                    self.write(st, dest_key, ("callres", cs))
                    st.store[dest_key + "@Some.0"] = sres
                    if self.final:
                        r0, off0 = self.root_of(sres[1])
                        self.slices.append({"bi": bi, "sid": sres[1], "root": r0, "off": off0, "kind": idx[0],
                                            "len": st.store["len:" + sres[1]][1], "sp": sp})
                        self.events.append(ev)
                    return
            elif re.search(r"^core::slice::<impl \[T\]>::get$", name) and len(vals) == 2 and vals[1] is not None and vals[1][0] == "lin" \
                    and vals[0] is not None and vals[0][0] in ("slice", "ref") and dest_ty["k"] == "adt":
                # checked element access: Some(&s[i]) exactly when i < len
                ln = self.slice_len_of_val(st, vals[0], self.op_ty(args[0]))
                ix = vals[1][1]
                if ln is not None:
                    base = vals[0][1]
                    ekey = "*%s[%r]" % (base.lstrip("*"), ix) if not base.startswith("(") else "%s[%r]" % (base, ix)
                    inner = None
                    ot = self.op_ty(args[0])
                    for _ in range(3):
                        if ot is not None and ot["k"] in ("ref", "ptr"):
                            ot = self.types[ot["t"]]
                    if ot is not None and ot["k"] in ("slice", "array"):
                        inner = self.types[ot["t"]]
                    if inner is not None and inner["k"] in ("int", "bool", "char") and ekey not in st.store:
                        self._last_index = ix
                        st.store[ekey] = self.default_val(ekey, inner, "%s@%d" % (ekey, bi))
                    cs = "opt%d" % bi
                    self.pending[cs] = {"variant_facts": {1: [ix + 1 - ln]}}
                    self.write(st, dest_key, ("callres", cs))
                    st.store[dest_key + "@Some.0"] = ("ref", ekey, False)
                    if self.final:
                        self.events.append(ev)
                    return
            elif name in ("std::option::Option::<T>::ok_or", "std::option::Option::<T>::ok_or_else") and vals and \
                    vals[0] is not None and vals[0][0] == "callres" and args[0].get("o") in ("copy", "move"):
                # Some(x) -> Ok(x): the facts and the payload of the Some side become those of the Ok side
                src = self.pending.get(vals[0][1], {})
                cs = "okor%d" % bi
                self.pending[cs] = {"variant_facts": {0: list(src.get("variant_facts", {}).get(1, []))},
                                    "variant_stores": {0: list(src.get("variant_stores", {}).get(1, []))}}
                ak = self.key_of(st, args[0]["pl"], bi, -1)
                self.havoc_args(st, args[1:], vals[1:], bi)
                self.write(st, dest_key, ("callres", cs))
                self.copy_tree(st, ak + "@Some", dest_key + "@Ok")
                if self.final:
                    self.events.append(ev)
                return
            elif re.search(r"::<impl (str|\[T\])>::(splitn|rsplitn)$", name) and len(vals) >= 2:
                result = ("splitn", self.as_lin(vals[1]))
                handled = True
            elif re.search(r"::<impl (str|\[T\])>::(split|rsplit|split_inclusive)$", name) and len(vals) >= 2 and \
                    not (name.endswith("split_inclusive")):
                # split / rsplit yield at least one (possibly empty) piece, at most len + 1
                result = ("splitn", Lin.const(1 << 40))
                handled = True
            elif name == "std::iter::Iterator::collect" and vals and vals[0] is not None and vals[0][0] == "splitn" \
                    and dest_ty["k"] == "adt" and dest_ty["name"].endswith("vec::Vec"):
                # splitn(n, ..) with n >= 1 always yields at least one item and at most n
                n = vals[0][1]
                if n is not None and lb(n, self.iv) >= 1:
                    ln = self.sym("collect%d" % bi, (1, max(1, ub(n, self.iv))))
                    self.write(st, dest_key, None)
                    st.store["len:" + dest_key] = ("lin", ln)
                    if self.final:
                        self.events.append(ev)
                    return
                handled = True
            elif name in ("std::time::Duration::from_secs", "std::time::Duration::from_millis") and vals:
                result = ("duration", self.as_lin(vals[0]))
                handled = True
            elif re.search(r"::RwLock::<T>::(read|write)$|::Mutex::<T>::lock$", name) and name.startswith("std::sync"):
                result = ("lockres", bi)
                handled = True
            elif name.endswith("as std::convert::TryInto<U>>::try_into") and vals:
                # &[T] -> [T; N] succeeds iff the lengths agree; the Ok payload is the bytes of that slice
                ln = self.slice_len_of_val(st, vals[0], self.op_ty(args[0]))
                ok_t = self.types[dest_ty["args"][0]] if dest_ty.get("args") else None
                cs = "ti%d" % bi
                info = {"variant_facts": {}}
                if ln is not None and ok_t is not None and ok_t["k"] == "array" and ok_t["n"] is not None:
                    n = Lin.const(ok_t["n"])
                    if self.holds(st, ln - n) and self.holds(st, n - ln):
                        info["known"] = ("Ok", "slice length equals array length %d" % ok_t["n"])
                self.pending[cs] = info
                self.write(st, dest_key, ("callres", cs))
                if vals[0] is not None and vals[0][0] == "slice":
                    st.store[dest_key + "@Ok.0"] = ("arr", vals[0][1])
                if self.final:
                    self.events.append(ev)
                return
        if c is not None and not handled:
            # local callee with a summary?
            summ = self.summaries.get(c["id"]) if c["resolved"] else None
            cursor = None
            for a, v in zip(args, vals):
                if v is not None and v[0] == "ref" and len(v) > 2 and v[2]:
                    ta = self.op_ty(a)
                    if ta and ta["k"] == "ref" and self.types[ta["t"]]["k"] == "int":
                        cursor = v[1]
            before = self.as_lin(st.store.get(cursor)) if cursor else None
            data_len = None
            for a, v in zip(args, vals):
                if v is not None and v[0] == "slice" and data_len is None:
                    data_len = self.length_of(st, v[1])
            writer = None
            for a, v in zip(args, vals):
                if v is not None and v[0] == "ref" and len(v) > 2 and v[2]:
                    ta = self.op_ty(a)
                    if ta and ta["k"] == "ref" and self.types[ta["t"]]["k"] == "param":
                        writer = v[1]
            wbefore = None
            if writer is not None:
                wbefore = self.as_lin(st.store.get("wpos:" + writer))
                if wbefore is None:
                    wbefore = self.sym("wpos(%s)@%d" % (writer, bi), (0, USIZE_HI))
            argmap = {}
            for i, (a, v) in enumerate(zip(args, vals)):
                if v is None:
                    continue
                if v[0] == "ref" and len(v) > 2:
                    ta = self.op_ty(a)
                    if ta and ta["k"] == "ref" and self.types[ta["t"]]["k"] == "int":
                        argmap["(*_%d)@entry" % (i + 1)] = self.as_lin(st.store.get(v[1]))
                    else:
                        ln0 = st.store.get("len:" + v[1])
                        if ln0 is not None:
                            argmap["len(_%d)" % (i + 1)] = ln0[1]
                elif v[0] == "slice":
                    argmap["len(_%d)" % (i + 1)] = self.length_of(st, v[1])
                elif v[0] == "lin":
                    argmap["_%d" % (i + 1)] = v[1]
            ev["argmap"] = argmap
            self.havoc_args(st, args, vals, bi)
            is_result = dest_ty["k"] == "adt" and dest_ty["name"].endswith("::Result")
            cs = "cs%d" % bi
            if cursor is not None:
                after = self.sym("%s@bb%d" % (cursor, bi), (0, USIZE_HI))
                st.store[cursor] = ("lin", after)
                facts = []
                if summ and before is not None:
                    if summ.get("adv_min") is not None:
                        facts.append(before + summ["adv_min"] - after)
                    if summ.get("out_le_len") and data_len is not None:
                        facts.append(after - data_len)
                    if summ.get("out_ge_len") and data_len is not None:
                        facts.append(data_len - after)
                    if summ.get("adv_max") is not None:
                        facts.append(after - before - summ["adv_max"])
                ev["cursor"] = (cursor, before, after)
                if is_result:
                    self.pending[cs] = {"variant_facts": {0: facts}}
                else:
                    for f in facts:
                        st.facts.add(f)
            recv_key = vals[0][1] if (vals and vals[0] is not None and vals[0][0] == "ref") else None
            impl_self = (c.get("impl") or {}).get("self") if c.get("impl") else None
            tshort = _short(impl_self) if impl_self else None
            if tshort is None and c.get("trait_item") and c["targs"]:
                # a provided (default) trait method, e.g. WireFormat::write_compressed_to: Self is the first type argument
                t0 = self.types[c["targs"][0]]
                if t0["k"] == "adt":
                    tshort = t0["name"].split("::")[-1]
            if tshort is None and c.get("local") and recv_key is not None and args and args[0].get("o") in ("copy", "move"):
                # a free helper function taking the value by reference as its first parameter (`fn write_x(q: &Question, out)`)
                t0 = self.op_ty(args[0])
                for _ in range(3):
                    if t0 is not None and t0["k"] in ("ref", "ptr"):
                        t0 = self.types[t0["t"]]
                if t0 is not None and t0["k"] == "adt":
                    tshort = t0["name"].split("::")[-1]
            if writer is not None:
                wafter = self.sym("wpos(%s)@%d'" % (writer, bi), (0, USIZE_HI))
                st.store["wpos:" + writer] = ("lin", wafter)
                if recv_key is not None and (tshort or not c["resolved"]) and self.final is not None:
                    is_wire_w = bool(c.get("impl") and (c["impl"].get("trait") or "").endswith("wire_format::WireFormat")) or \
                        (c.get("trait") or "").endswith("wire_format::WireFormat")
                    if is_wire_w:
                        nsym = "N[%s](%s)" % (tshort or "dyn " + c["name"], self.origin.get(recv_key, recv_key))
                    else:
                        nsym = "H[%s](%s)" % (c["id"], self.origin.get(recv_key, recv_key))
                    wexact = wbefore + self.sym(nsym, (0, USIZE_HI))
                    ev["nested_write"] = (tshort, self.origin.get(recv_key, recv_key), c["name"])
                    if self.final:
                        self.emits.append({"bi": bi, "kind": "nested", "type": tshort, "recv": self.origin.get(recv_key, recv_key),
                                           "fn": c["name"], "len": Lin.sym(nsym), "sp": sp, "callee_id": c["id"],
                                           "compressed": c["name"] == "write_compressed_to" or c["name"] == "compress_append"})
                else:
                    wexact = None
                wf = []
                wsum = summ
                if wsum is None and not c["resolved"]:
                    # trait-dispatched writer call: use what every candidate implementation guarantees
                    wsum = self.dispatch_summary(bi)
                if wsum and wsum.get("w_adv_min") is not None:
                    wf.append(wbefore + wsum["w_adv_min"] - wafter)
                ev["writer"] = (writer, wbefore)
                ev["writer_after"] = wafter
                if is_result:
                    self.pending.setdefault(cs, {"variant_facts": {}})
                    self.pending[cs]["variant_facts"].setdefault(0, []).extend(wf)
                    if wexact is not None:
                        self.pending[cs].setdefault("variant_stores", {}).setdefault(0, []).append(("wpos:" + writer, ("lin", wexact)))
                else:
                    for f in wf:
                        st.facts.add(f)
            if is_result:
                result = ("callres", cs)
                self.pending.setdefault(cs, {"variant_facts": {}})
                self.pending[cs]["callee"] = c["id"]
            elif summ and summ.get("true_facts") and dest_ty["k"] == "bool":
                facts = []
                okm = True
                for f in summ["true_facts"]:
                    g = f
                    for s0 in f.syms():
                        m = re.match(r"^len\(\(\*_(\d+)\)([^()]*)\)$", s0)
                        i = int(m.group(1)) - 1
                        v = vals[i] if i < len(vals) else None
                        if v is None or v[0] != "ref":
                            okm = False
                            break
                        g = subst(g, s0, self.length_of(st, v[1] + m.group(2)))
                    if not okm:
                        break
                    facts.append(g)
                if okm:
                    self.pending[cs] = {"variant_facts": {1: facts}, "callee": c["id"]}
                    result = ("boolres", cs)
            if c["name"] == "len" and recv_key is not None and dest_ty["k"] == "int" and c["local"] or \
                    (c["name"] == "len" and recv_key is not None and dest_ty["k"] == "int" and c["crate"] in ("simple_dns", "simple_mdns")):
                rk = self.origin.get(recv_key, recv_key)
                is_wire = bool(c.get("impl") and (c["impl"].get("trait") or "").endswith("wire_format::WireFormat"))
                if summ and summ.get("ret_lin") is not None and not is_wire:
                    g = summ["ret_lin"]
                    for s0 in list(g.syms()):
                        ns = s0.replace("(*_1)", rk)
                        if ns != s0:
                            g = subst(g, s0, self.sym(ns, (0, USIZE_HI)))
                    result = ("lin", g)
                else:
                    result = ("lin", self.sym("N[%s](%s)" % (tshort or ("dyn " + c["name"]), rk), (0, USIZE_HI)))
            if summ and summ.get("ret_iter") and result is None:
                kind, path = summ["ret_iter"]
                m = re.match(r"^\(\*_(\d+)\)(.*)$", path)
                if m:
                    i = int(m.group(1)) - 1
                    v = vals[i] if i < len(vals) else None
                    if v is not None and v[0] == "ref":
                        result = (kind, v[1] + m.group(2))
        elif c is None:
            self.havoc_args(st, args, vals, bi)
        ev["result"] = result
        self.write(st, dest_key, result)
        self.decompose(st, dest_key, result)
        if result is not None and result[0] == "callres" and c is not None and ev.get("argmap") is not None:
            st.store[dest_key + "@Ok.0"] = ("parsed", result[1])
            self.pending[result[1]]["parse_call"] = {"callee": c, "bi": bi, "cursor": ev.get("cursor"), "argmap": ev.get("argmap"), "sp": sp}
        if result is None and dest_ty["k"] in ("int", "bool", "char"):
            st.store[dest_key] = ("lin", self.sym("ret%d" % bi, int_range(dest_ty)))
        if self.final:
            ev["st"] = st.copy()
            self.events.append(ev)

    # ------------------------------------------------------------------ block transfer
    def transfer(self, bi, st):
        """returns list of (succ, state)"""
        b = self.b
        bl = b.blocks[bi]
        self._cur_bi = bi
        for si, s in enumerate(bl["stmts"]):
            if s["s"] == "assign":
                self.assign(st, s["pl"], s["rv"], bi, si)
            elif s["s"] == "setdiscr":
                self.kill(st, self.key_of(st, s["pl"], bi, si))
        t = bl["term"]
        k = t["t"]
        if k == "goto":
            return [(t["target"], st)]
        if k == "drop":
            return [(t["target"], st)]
        if k == "yield":
            return [(t["resume"], st)]
        if k == "return":
            if self.final:
                self.ret_states.append((bi, st))
            return []
        if k == "assert":
            self.do_assert(st, t, bi)
            c = self.eval_op(st, t["cond"], bi, -1)
            if c is not None and c[0] == "bool":
                op = c[1] if t["expected"] else NEG[c[1]]
                self.add_cmp(st, op, c[2], c[3])
            return [(t["target"], st)]
        if k == "call":
            self.do_call(st, t, bi)
            if self.final and not t["dest"]["p"] and t["dest"]["l"] == 0:
                self.ok_points.append((bi, st.copy(), st.store.get("_0")))
            if t["target"] is None:
                return []
            return [(t["target"], st)]
        if k == "switch":
            d = self.eval_op(st, t["discr"], bi, -1)
            out = []
            arms = [(int(v), tgt) for v, tgt in t["arms"]]
            if self.final:
                self.sw_facts[bi] = d
            forced = None
            if d is not None and d[0] == "bool" and self.force_sym:
                # `tag == CONST` / `tag != CONST` tested through a comparison instead of a switch on the value
                diff = d[2] - d[3]
                if diff.t and all(s in self.force_sym for s, _k in diff.t):
                    val = diff.c + sum(k * self.force_sym[s] for s, k in diff.t)
                    forced = {"Eq": val == 0, "Ne": val != 0, "Lt": val < 0, "Le": val <= 0, "Gt": val > 0, "Ge": val >= 0}.get(d[1])
            if forced is not None:
                # the switch is on the bool: arm value 0 = false
                want_v = 1 if forced else 0
                hit = [tgt for v, tgt in arms if (v != 0) == bool(want_v)]
                s2 = st.copy()
                for s_, _k in (d[2] - d[3]).t:
                    self.add_cmp(s2, "Eq", Lin.sym(s_), Lin.const(self.force_sym[s_]))
                out.append((hit[0] if hit else t["otherwise"], s2))
            elif d is not None and d[0] == "bool" and (d[2] - d[3]).is_const():
                val = (d[2] - d[3]).c
                truth = {"Eq": val == 0, "Ne": val != 0, "Lt": val < 0, "Le": val <= 0, "Gt": val > 0, "Ge": val >= 0}.get(d[1])
                hit = [tgt for v, tgt in arms if (v != 0) == bool(truth)]
                out.append((hit[0] if hit else t["otherwise"], st.copy()))
            elif d is not None and d[0] == "bool":
                for v, tgt in arms:
                    s2 = st.copy()
                    self.add_cmp(s2, d[1] if v != 0 else NEG[d[1]], d[2], d[3])
                    out.append((tgt, s2))
                s2 = st.copy()
                if len(arms) == 1:
                    self.add_cmp(s2, NEG[d[1]] if arms[0][0] != 0 else d[1], d[2], d[3])
                out.append((t["otherwise"], s2))
            elif d is not None and d[0] == "lin" and self.force_sym and len(d[1].t) == 1 and d[1].c == 0 and d[1].t[0][0] in self.force_sym:
                want = self.force_sym[d[1].t[0][0]]
                hit = [tgt for v, tgt in arms if v == want]
                s2 = st.copy()
                self.add_cmp(s2, "Eq", d[1], Lin.const(want))
                out.append((hit[0] if hit else t["otherwise"], s2))
            elif d is not None and d[0] == "lin":
                x = d[1]
                for v, tgt in arms:
                    if x.is_const() and x.c != v:
                        continue
                    s2 = st.copy()
                    self.add_cmp(s2, "Eq", x, Lin.const(v))
                    out.append((tgt, s2))
                if not (x.is_const() and any(v == x.c for v, _ in arms)):
                    s2 = st.copy()
                    for v, _ in sorted(arms):
                        self.add_cmp(s2, "Ne", x, Lin.const(v))
                    out.append((t["otherwise"], s2))
            elif d is not None and d[0] == "discr" and d[1][0] in ("callres", "branch"):
                info = self.pending.get(d[1][1], {})
                vf = info.get("variant_facts", {})
                seen = set()
                vs_ = info.get("variant_stores", {})
                for v, tgt in arms:
                    s2 = st.copy()
                    for f in vf.get(v, []):
                        s2.facts.add(f)
                    for (k2, val2) in vs_.get(v, []):
                        self.write(s2, k2, val2)
                    seen.add(v)
                    out.append((tgt, s2))
                s2 = st.copy()
                rest = [v for v in vf if v not in seen]
                if len(rest) == 1:
                    for f in vf[rest[0]]:
                        s2.facts.add(f)
                    for (k2, val2) in vs_.get(rest[0], []):
                        self.write(s2, k2, val2)
                out.append((t["otherwise"], s2))
            elif d is not None and d[0] == "boolres":
                vf = self.pending.get(d[1], {}).get("variant_facts", {})
                for v, tgt in arms:
                    s2 = st.copy()
                    for f in vf.get(1 if v != 0 else 0, []):
                        s2.facts.add(f)
                    out.append((tgt, s2))
                s2 = st.copy()
                other = 0 if (arms and arms[0][0] != 0) else 1
                for f in vf.get(other, []):
                    s2.facts.add(f)
                out.append((t["otherwise"], s2))
            elif d is not None and d[0] == "discr" and d[1][0] == "adt":
                # statically known variant (e.g. matching on a literal Ok(..), or the Err a helper returned on this path)
                ix = _STD_VARIANT_INDEX.get((d[1][1], d[1][2]))
                if ix is None:
                    ix = self.variant_index(d[1][1], d[1][2])
                if ix is not None:
                    hit = [tgt for v, tgt in arms if v == ix]
                    out.append((hit[0] if hit else t["otherwise"], st.copy()))
                else:
                    for v, tgt in arms:
                        out.append((tgt, st.copy()))
                    out.append((t["otherwise"], st.copy()))
            elif d is not None and d[0] == "discr" and d[1][0] == "place" and self.force and d[1][1] in self.force:
                want = self.force[d[1][1]]
                hit = [tgt for v, tgt in arms if v == want]
                out.append((hit[0] if hit else t["otherwise"], st.copy()))
            else:
                for v, tgt in arms:
                    out.append((tgt, st.copy()))
                out.append((t["otherwise"], st.copy()))
            return out
        return []

    # ------------------------------------------------------------------ join
    def join(self, node, incoming, back_flags):
        """incoming: list of States; back_flags[i] is True when the i-th edge is a loop back-edge.
        Loop-carried values become phi symbols owned by this node; candidate invariants about them
        (lifted facts and constant differences seen on the forward edges) are assumed optimistically and
        removed, permanently, as soon as one fails on any edge (Houdini): what survives is inductive."""
        B = node
        if len(incoming) == 1 and B not in self.phi_keys:
            return incoming[0].copy()
        own = "phi%s:" % (B,)
        sticky = self.phi_keys.setdefault(B, set())
        cleaned = []
        must_phi = set()
        for S in incoming:
            facts = set(f for f in S.facts if not any(s.startswith(own) for s in f.syms()))
            for k, v in S.store.items():
                if v is not None and v[0] == "lin" and any(s.startswith(own) for s in v[1].syms()):
                    must_phi.add(k)
            cleaned.append(State(S.store, facts))
        keys = set(cleaned[0].store.keys())
        for S in cleaned[1:]:
            keys &= set(S.store.keys())
        store = {}
        phis = {}
        live = self.live_in[B[0]] if isinstance(B, tuple) else None
        # payload of variant V of an enum-valued place: states in which the place holds a different variant do not
        # constrain it (a helper returning `Err(..)` on one path and `Ok(x)` on another: x survives the join)
        allk = set()
        for S in cleaned:
            allk |= set(S.store.keys())
        for k in allk - keys:
            m = _VARIANT_KEY.match(k)
            if not m:
                continue
            base, var = m.group(1), m.group(2)
            have = [S.store[k] for S in cleaned if k in S.store]
            others_ok = True
            for S in cleaned:
                if k in S.store:
                    continue
                bv = S.store.get(base)
                if not (bv is not None and bv[0] == "adt" and bv[2] != var):
                    others_ok = False
                    break
            if others_ok and have and all(v == have[0] for v in have[1:]) and have[0] is not None and own not in repr(have[0]):
                store[k] = have[0]
        for k in keys:
            if live is not None:
                m = _BASE.match(k)
                if m and int(m.group(2)) not in live and int(m.group(2)) not in self.always_live:
                    continue
            vs = [S.store[k] for S in cleaned]
            same = all(v == vs[0] for v in vs[1:])
            if same and k not in must_phi and k not in sticky:
                store[k] = vs[0]
                continue
            if all(v is not None and v[0] == "adt" for v in vs) and len(set((v[1], v[2]) for v in vs)) == 1:
                # the same variant of the same enum on every edge (e.g. different Err(..) values): the variant is known
                if len(set(len(v[3]) for v in vs)) == 1:
                    def jv(xs):
                        # field-wise, through nested aggregates of the same shape (`Ok(Record { a, b })` built on two paths that
                        # differ in b keeps a)
                        if all(x == xs[0] for x in xs[1:]):
                            return xs[0]
                        if all(x is not None and x[0] == "adt" for x in xs) and len(set((x[1], x[2], len(x[3])) for x in xs)) == 1:
                            return ("adt", xs[0][1], xs[0][2], tuple(jv([x[3][i] for x in xs]) for i in range(len(xs[0][3]))), xs[0][4])
                        return None
                    flds = tuple(jv([v[3][i] for v in vs]) for i in range(len(vs[0][3])))
                    store[k] = ("adt", vs[0][1], vs[0][2], flds, vs[0][4])
                else:
                    store[k] = ("adt", vs[0][1], vs[0][2], (), ())
                continue
            if all(v is not None and v[0] == "bytes" for v in vs) and len(set((v[2], v[3]) for v in vs)) == 1:
                # both arms of a branch produced the bytes of an integer of the same width / order
                store[k] = ("bytes", None, vs[0][2], vs[0][3], vs[0][4] if len(set(map(str, (v[4] for v in vs)))) == 1 else None)
                continue
            if all(v is not None and v[0] == "lin" for v in vs):
                name = own + k
                los = [lb(v[1], self.iv) for v in vs]
                his = [ub(v[1], self.iv) for v in vs]
                lo = 0 if min(los) >= 0 else -INF
                hi = max(his)
                old = self.iv.get(name)
                if old is not None:
                    lo = min(lo, old[0])
                    if hi > old[1]:
                        hi = INF
                    else:
                        hi = old[1]
                self.iv[name] = (lo, hi)
                store[k] = ("lin", Lin.sym(name))
                phis[k] = (name, [v[1] for v in vs])
                sticky.add(k)
        # ---- plain facts: those every edge entails
        cand = set()
        for S in cleaned:
            cand |= S.facts
        facts = set()
        for f in cand:
            if f.is_const():
                continue
            if all((f in S.facts) or entails(S.facts, self.iv, f, 1) for S in cleaned):
                facts.add(f)
        if not phis:
            return State(store, facts)
        # ---- candidate invariants over the phi symbols
        fwd = [i for i, bk in enumerate(back_flags) if not bk]
        has_back = any(back_flags)
        cands = self.cands.setdefault(B, None)
        dead = self.dead_cands.setdefault(B, set())
        gen = set()
        src = fwd if fwd else list(range(len(cleaned)))
        for i in src:
            S = cleaned[i]
            for k, (name, vs) in phis.items():
                v = vs[i]
                # lifted facts: rewrite facts about the incoming value in terms of the phi
                if len(v.t) == 1 and v.t[0][1] == 1:
                    s0 = v.t[0][0]
                    repl = Lin.sym(name) - v.c
                    n = 0
                    for f in S.facts:
                        if s0 in f.syms():
                            g = subst(f, s0, repl)
                            gen.add(g)
                            n += 1
                            if n > 60:
                                break
                # monotonicity against the value on entry to the loop
                if not any(s.startswith(own) for s in v.syms()):
                    gen.add(v - Lin.sym(name))
                    gen.add(Lin.sym(name) - v)
                # constant differences to other tracked values (phi'd or not)
                for k2, v2 in S.store.items():
                    if k2 == k or v2 is None or v2[0] != "lin" or k2.startswith("len:") and False:
                        continue
                    if k2 in phis:
                        other = Lin.sym(phis[k2][0])
                        d = v - phis[k2][1][i]
                    elif k2 in store and store[k2][0] == "lin":
                        other = store[k2][1]
                        d = v - v2[1]
                    else:
                        continue
                    if not d.is_const() and len(d.t) <= 3:
                        sympart = d - d.c
                        if entails(S.facts, self.iv, sympart, 2) and entails(S.facts, self.iv, sympart.scale(-1), 2):
                            d = Lin.const(d.c)
                    if d.is_const():
                        e = Lin.sym(name) - other - d.c
                        gen.add(e)
                        gen.add(e.scale(-1))
        if cands is None:
            cands = set()
        # every fact of a forward edge is a candidate too (facts about values that do not change in the loop)
        for i in fwd:
            for f in cleaned[i].facts:
                if not f.is_const():
                    gen.add(f)
        fresh = set(g for g in gen if g not in dead and g not in cands and not g.is_const())
        if len(cands) + len(fresh) > 600:
            fresh = set(sorted(fresh, key=repr)[:max(0, 600 - len(cands))])
        cands = cands | fresh
        keep = set()
        for f in cands:
            ok = True
            for i, S in enumerate(cleaned):
                if back_flags[i] and f in fresh:
                    continue   # the back-edge state was computed before this candidate was assumed
                g = f
                for k, (name, vs) in phis.items():
                    g = subst(g, name, vs[i])
                # on a back edge the phi symbols in the edge's facts denote the previous iteration's
                # values: exactly the induction hypothesis
                if not entails(incoming[i].facts, self.iv, g, 2):
                    ok = False
                    break
            if ok:
                keep.add(f)
            else:
                dead.add(f)
        self.cands[B] = keep
        facts |= keep
        self.join_info[B] = (phis, incoming, list(back_flags))
        return State(store, facts)

    # ------------------------------------------------------------------ driver
    def initial_state(self):
        st = State()
        b = self.b
        for i in range(1, b.argc + 1):
            t = b.local_ty(i)
            key = "_%d" % i
            if t["k"] in ("int", "bool", "char"):
                st.store[key] = ("lin", self.sym(key, int_range(t)))
            elif t["k"] == "ref":
                inner = self.types[t["t"]]
                if inner["k"] in ("slice", "str"):
                    st.store[key] = ("slice", key)
                    self.length_of(st, key)
                elif inner["k"] == "int":
                    st.store[key] = ("ref", "(*%s)" % key, t["mut"])
                    st.store["(*%s)" % key] = ("lin", self.sym("(*%s)@entry" % key, int_range(inner)))
                else:
                    st.store[key] = ("ref", "(*%s)" % key, t["mut"])
                    if t["mut"] and inner["k"] == "adt":
                        # integer fields of a struct reached through `&mut self`: given their entry value now, so that a loop
                        # which advances one (`self.current += 1`) has a loop-carried value at its head
                        adt = b.prog.adts.get(inner.get("name", ""))
                        if adt is not None and adt.get("kind") == "struct" and adt.get("crate") in ("simple_dns", "simple_mdns") \
                                and len(adt["variants"]) == 1:
                            tt = b.prog.types.get(adt["crate"], [])
                            for f in adt["variants"][0]["fields"]:
                                ft = tt[f["t"]] if isinstance(f.get("t"), int) and f["t"] < len(tt) else None
                                if ft is not None and ft["k"] == "int":
                                    fk = "(*%s).%s" % (key, f["name"])
                                    st.store[fk] = ("lin", self.sym(fk + "@entry", int_range(ft)))
                    if t["mut"] and inner["k"] == "param":
                        st.store["wpos:(*%s)" % key] = ("lin", self.sym("wpos(*%s)@entry" % key, (0, USIZE_HI)))
                    if inner["k"] == "adt" and self.type_invs.get(inner.get("name", "")):
                        # validated invariants of a private struct (A11): `int field <= len(slice field)`
                        for (f_int, f_sl) in self.type_invs[inner["name"]]:
                            fk = "(*%s).%s" % (key, f_int)
                            if fk not in st.store:
                                st.store[fk] = ("lin", self.sym(fk + "@entry", (0, USIZE_HI)))
                            gk = "(*%s).%s" % (key, f_sl)
                            ln = self.length_of(st, gk)
                            if ln is not None and st.store[fk][0] == "lin":
                                st.facts.add(st.store[fk][1] - ln)
        return st

    def rpo(self):
        b = self.b
        seen = set()
        order = []
        stack = [(0, iter(b.successors(0)))]
        seen.add(0)
        while stack:
            n, it = stack[-1]
            adv = False
            for s in it:
                if s not in seen and not b.blocks[s]["cleanup"]:
                    seen.add(s)
                    stack.append((s, iter(b.successors(s))))
                    adv = True
                    break
            if not adv:
                order.append(n)
                stack.pop()
        order.reverse()
        return order

    def liveness(self):
        """live-in sets of locals per block (address-taken locals are always live)"""
        b = self.b
        nb = len(b.blocks)
        use = [set() for _ in range(nb)]
        defs = [set() for _ in range(nb)]
        always = set(range(0, b.argc + 1))

        def pl_uses(pl, acc):
            acc.add(pl["l"])
            for p in pl["p"]:
                if isinstance(p, dict) and "ix" in p:
                    acc.add(p["ix"])

        def op_uses(op, acc):
            if op is not None and op.get("o") in ("copy", "move"):
                pl_uses(op["pl"], acc)

        for bi, bl in enumerate(b.blocks):
            u, d = use[bi], defs[bi]

            def see(acc):
                for l in acc:
                    if l not in d:
                        u.add(l)
            for st in bl["stmts"]:
                if st["s"] != "assign":
                    continue
                rv = st["rv"]
                acc = set()
                k = rv["k"]
                if k in ("use", "cast", "repeat"):
                    op_uses(rv["op"], acc)
                elif k == "bin":
                    op_uses(rv["a"], acc)
                    op_uses(rv["b"], acc)
                elif k == "un":
                    op_uses(rv["a"], acc)
                elif k == "agg":
                    for o in rv["ops"]:
                        op_uses(o, acc)
                elif k in ("ref", "rawptr", "discr"):
                    pl_uses(rv["pl"], acc)
                    if k != "discr" and (not rv["pl"]["p"] or rv["pl"]["p"][0] != "d"):
                        always.add(rv["pl"]["l"])
                see(acc)
                pl = st["pl"]
                if pl["p"]:
                    acc2 = set()
                    pl_uses(pl, acc2)
                    see(acc2)
                else:
                    d.add(pl["l"])
            t = bl["term"]
            acc = set()
            if t["t"] == "switch":
                op_uses(t["discr"], acc)
            elif t["t"] == "assert":
                op_uses(t["cond"], acc)
                for kk in ("len", "index", "a", "b"):
                    if kk in t["msg"]:
                        op_uses(t["msg"][kk], acc)
            elif t["t"] == "call":
                for a in t["args"]:
                    op_uses(a, acc)
                if t.get("fop"):
                    op_uses(t["fop"], acc)
                if t["dest"]["p"]:
                    pl_uses(t["dest"], acc)
            elif t["t"] == "drop":
                pl_uses(t["pl"], acc)
            elif t["t"] == "yield":
                op_uses(t["value"], acc)
            see(acc)
            if t["t"] == "call" and not t["dest"]["p"]:
                d.add(t["dest"]["l"])
        live_in = [set() for _ in range(nb)]
        changed = True
        while changed:
            changed = False
            for bi in range(nb - 1, -1, -1):
                out = set()
                for s2 in b.successors(bi):
                    out |= live_in[s2]
                new = use[bi] | (out - defs[bi])
                if new != live_in[bi]:
                    live_in[bi] = new
                    changed = True
        return live_in, always

    def mode_locals(self):
        """bool locals that are only ever assigned constants: used as trace-partitioning keys"""
        b = self.b
        assigned = {}
        for bl in b.blocks:
            for s in bl["stmts"]:
                if s["s"] == "assign" and not s["pl"]["p"]:
                    l = s["pl"]["l"]
                    rv = s["rv"]
                    const = rv["k"] == "use" and rv["op"]["o"] == "const" and rv["op"]["k"]["c"] == "int"
                    assigned.setdefault(l, []).append(const)
            t = bl["term"]
            if t["t"] == "call" and not t["dest"]["p"]:
                assigned.setdefault(t["dest"]["l"], []).append(False)
        names = b.local_names()
        out = []
        for l, cs in assigned.items():
            if l in names and l > b.argc and b.local_ty(l)["k"] == "bool" and all(cs) and len(cs) >= 2:
                out.append(l)
        # a two-or-more-variant fieldless enum used the same way: only ever assigned constant variants
        defs_all = {}
        for bl in b.blocks:
            for s in bl["stmts"]:
                if s["s"] == "assign" and not s["pl"]["p"]:
                    defs_all.setdefault(s["pl"]["l"], []).append(s["rv"])
            t = bl["term"]
            if t["t"] == "call" and not t["dest"]["p"]:
                defs_all.setdefault(t["dest"]["l"], []).append(None)

        def const_variant(rv, depth=3):
            if rv is None:
                return False
            if rv["k"] == "agg" and rv.get("ak") == "adt" and not rv["ops"]:
                return True
            if rv["k"] == "use" and rv["op"].get("o") in ("copy", "move") and not rv["op"]["pl"]["p"] and depth > 0:
                ds = defs_all.get(rv["op"]["pl"]["l"], [])
                return len(ds) == 1 and const_variant(ds[0], depth - 1)
            return False
        for l, rvs in defs_all.items():
            if l not in names or l <= b.argc or len(rvs) < 2:
                continue
            ty = b.local_ty(l)
            adt = b.prog.adts.get(ty.get("name", "")) if ty["k"] == "adt" else None
            if adt is None or adt.get("kind") != "enum" or adt.get("crate") not in ("simple_dns", "simple_mdns") or \
                    any(v.get("fields") for v in adt["variants"]):
                continue
            if all(const_variant(rv) for rv in rvs):
                out.append(l)
        # a bool field of a named local struct that only ever receives constants (`walker.following_pointer = true` where the
        # loop state was gathered into a private struct): the same kind of flag, addressed by its store key
        fld_assign = {}
        for bl in b.blocks:
            for s in bl["stmts"]:
                if s["s"] != "assign":
                    continue
                pp = s["pl"]["p"]
                if pp and isinstance(pp[-1], dict) and "f" in pp[-1] and pp[-1].get("adt") and b.ty(s["pl"]["t"])["k"] == "bool" and \
                        all(x == "d" for x in pp[:-1]):
                    rv = s["rv"]
                    fld_assign.setdefault((pp[-1]["adt"], pp[-1]["n"]), []).append(
                        rv["k"] == "use" and rv["op"]["o"] == "const" and rv["op"]["k"]["c"] == "int")
                if s["rv"]["k"] == "agg" and s["rv"].get("ak") == "adt" and s["rv"].get("fields"):
                    for f0, o0 in zip(s["rv"]["fields"], s["rv"]["ops"]):
                        k0 = (s["rv"]["adt"], f0)
                        if k0 in fld_assign or True:
                            is_bool = (o0.get("o") == "const" and b.ty(o0["k"]["t"])["k"] == "bool") or \
                                (o0.get("o") in ("copy", "move") and b.ty(o0["pl"]["t"])["k"] == "bool")
                            if is_bool:
                                fld_assign.setdefault(k0, []).append(o0.get("o") == "const" and o0["k"].get("c") == "int")
        for (adt_name, fname), cs in sorted(fld_assign.items()):
            if not all(cs) or len(cs) < 2 or not str(adt_name).startswith(("simple_dns", "simple_mdns", "fx_")):
                continue
            for l in sorted(names):
                if l > b.argc and b.local_ty(l)["k"] == "adt" and b.local_ty(l).get("name") == adt_name:
                    out.append("_%d.%s" % (l, fname))
        # source-level flags multiply the partitions (kept to three); the flag of an inlined helper is non-zero only between the
        # helper's return and the caller's test of it, so any number of them adds partitions only locally
        helper = [l for l in out if str(names.get(l, "")).startswith("inlined_helper_failed")]
        src = [l for l in out if l not in helper]
        return sorted(src, key=str)[:3] + sorted(helper)[:16]

    def variant_index(self, short, variant):
        """discriminant of `variant` of the workspace enum whose path ends in `short` (None when ambiguous / unknown)"""
        cache = getattr(self.b.prog, "_variant_index_cache", None)
        if cache is None:
            cache = {}
            for name, a in self.b.prog.adts.items():
                if a.get("kind") != "enum":
                    continue
                sh = name.split("::")[-1]
                for i, v in enumerate(a["variants"]):
                    dv = int(v["discr"]) if v.get("discr") is not None else i
                    cache.setdefault((sh, v["name"]), set()).add(dv)
            self.b.prog._variant_index_cache = cache
        vals = cache.get((short, variant))
        return list(vals)[0] if vals and len(vals) == 1 else None

    def mode_key(self, st):
        key = []
        transient = getattr(self, "_transient_modes", None)
        if transient is None:
            nm = self.b.local_names()
            transient = self._transient_modes = set(l for l in self.modes if str(nm.get(l, "")).startswith("inlined_helper_failed"))
        for l in self.modes:
            v = st.store.get(l if isinstance(l, str) else "_%d" % l)
            if v is None and l in transient:
                # a helper's partition flag is written before it is read; "not yet written" and "cleared" are the same partition
                key.append(0)
                continue
            if v is not None and v[0] == "lin" and v[1].is_const():
                key.append(v[1].c)
            elif v is not None and v[0] == "adt" and not v[3]:
                key.append(self.variant_index(v[1], v[2]))
            else:
                key.append(None)
        return tuple(key)

    def run(self):
        b = self.b
        order = self.rpo()
        pos = {n: i for i, n in enumerate(order)}
        self.modes = self.mode_locals()
        # the partition flag of an inlined helper is cleared on every back edge: it never outlives an iteration, so a change
        # of it is not a mode transition that needs a peeled iteration
        _names = b.local_names()
        persistent = [not str(_names.get(l, "")).startswith("inlined_helper_failed") for l in self.modes]

        def transition(k0, k1):
            return any(p and a is not None and a != b2 for p, a, b2 in zip(persistent, k0, k1))
        self.live_in, self.always_live = self.liveness()
        # partition flags survive joins even when never read
        self.always_live = set(self.always_live) | set(int(m[1:].split(".")[0]) if isinstance(m, str) else m for m in self.modes)
        self.cands = {}
        self.join_info = {}
        self.dead_cands = {}
        self.assumed_once = set()
        edge = {}          # (src node, dst node) -> State
        preds = {}         # dst node -> set of src nodes
        init = self.initial_state()
        n0 = (0, (self.mode_key(init), "s"))
        self.entry = {n0: init}
        nodes = {n0}
        converged = False
        for it in range(24):
            changed = False
            backset = self._back_edges(n0, edge)
            for node in self._node_iter(order, nodes):
                bi = node[0]
                if node != n0:
                    srcs = sorted(preds.get(node, ()), key=lambda n: (pos.get(n[0], 0), repr(n[1])))
                    inc = [edge[(p, node)] for p in srcs]
                    if not inc:
                        continue
                    back = [(p, node) in backset for p in srcs]
                    ns = self.join(node, inc, back)
                    prev = self.entry.get(node)
                    if prev is None or prev.store != ns.store or prev.facts != ns.facts:
                        changed = True
                        if self.debug and it > 8:
                            print("entry changed", it, node, prev is None)
                    self.entry[node] = ns
                st = self.entry[node].copy()
                outs = self.transfer(bi, st)
                by = {}
                for s, s2 in outs:
                    # trace partitioning on mode flags; the remainder of the iteration in which a flag
                    # changes is peeled ("e" phase) and rejoins the steady state at the next back edge
                    mk = self.mode_key(s2)
                    # a flag receiving its first value (None -> c) is initialisation, not a transition
                    # (a flag that changes in the very block that closes the iteration leaves nothing to peel)
                    if pos.get(s, 0) <= pos.get(bi, 0) and (node[1][1] == "e" or transition(node[1][0], mk)):
                        phase = "s"
                    elif transition(node[1][0], mk):
                        phase = "e"
                    else:
                        phase = node[1][1]
                    dst = (s, (mk, phase))
                    by.setdefault(dst, []).append(s2)
                live = set()
                for dst, lst in by.items():
                    e = lst[0] if len(lst) == 1 else self._meet_same_block(lst)
                    old = edge.get((node, dst))
                    if old is None or old.store != e.store or old.facts != e.facts:
                        changed = True
                        if self.debug and it > 8:
                            print("edge changed", node, dst)
                    edge[(node, dst)] = e
                    preds.setdefault(dst, set()).add(node)
                    live.add(dst)
                    if dst not in nodes:
                        nodes.add(dst)
                        changed = True
                # edges that disappeared (a branch became infeasible under new facts)
                for (a, d) in [k for k in edge if k[0] == node and k[1] not in live]:
                    del edge[(a, d)]
                    preds[d].discard(a)
                    changed = True
                    if self.debug and it > 8:
                        print("edge removed", a, d)
            if not changed:
                converged = True
                break
        self.converged = converged
        self.node_edges = set(edge.keys())
        self.final = True
        self.obligations = []
        self.events = []
        merged = {}
        for node in sorted(nodes, key=lambda n: (pos.get(n[0], 1 << 30), repr(n[1]))):
            if node not in self.entry:
                continue
            if node != n0 and not preds.get(node):
                continue
            st = self.entry[node].copy()
            n_before = len(self.obligations)
            self.transfer(node[0], st)
            # one obligation per construct: a site is discharged iff it is discharged in every partition
            for o in self.obligations[n_before:]:
                k = (o.bi, o.kind.replace(":wide", ""), o.snippet, o.what)
                lst = merged.setdefault(k, [])
                lst.append(o)
        obs = []
        for k, lst in merged.items():
            # several constructs of one block keep their order; partitions of the same construct merge
            groups = {}
            for o in lst:
                groups.setdefault(id(o) if False else None, []).append(o)
            per_part = {}
            for o in lst:
                per_part.setdefault(len(per_part), o)
            bad = [o for o in lst if not o.ok]
            rep = bad[0] if bad else lst[0]
            obs.append(rep)
        self.obligations = sorted(obs, key=lambda o: (pos.get(o.bi, 0)))
        # a block analysed in several partitions describes one program point: keep its first description
        self.events_all = list(self.events)
        for attr in ("emits", "reads", "events"):
            seen_bi = set()
            uniq = []
            for e in getattr(self, attr):
                if e["bi"] in seen_bi:
                    continue
                seen_bi.add(e["bi"])
                uniq.append(e)
            setattr(self, attr, uniq)
        if not converged:
            for o in self.obligations:
                if o.ok and o.why != "A-OVF":
                    o.ok = False
                    o.detail = "analysis did not converge for this body"
        return self

    def blocks_reachable(self, start_bi, avoid=()):
        """blocks reachable from block `start_bi` in the partitioned graph (every partition of it), not entering `avoid`:
        unlike plain CFG reachability this does not walk from a helper's error return into the caller's success arm"""
        succ = {}
        for (a, d) in self.node_edges:
            succ.setdefault(a, []).append(d)
        nodes = set(a for a, _ in self.node_edges) | set(d for _, d in self.node_edges)
        stack = [n for n in nodes if n[0] == start_bi]
        seen = set()
        while stack:
            n = stack.pop()
            if n in seen or n[0] in avoid:
                continue
            seen.add(n)
            stack.extend(succ.get(n, []))
        return set(n[0] for n in seen)

    def _back_edges(self, n0, edge):
        """edges of the (partitioned) node graph that close a cycle, by depth-first search from the entry"""
        succ = {}
        for (a, d) in edge:
            succ.setdefault(a, []).append(d)
        for a in succ:
            succ[a].sort(key=lambda n: (n[0], repr(n[1])))
        back = set()
        color = {n0: 1}
        stack = [(n0, iter(succ.get(n0, ())))]
        while stack:
            n, it = stack[-1]
            adv = False
            for d in it:
                c = color.get(d, 0)
                if c == 0:
                    color[d] = 1
                    stack.append((d, iter(succ.get(d, ()))))
                    adv = True
                    break
                if c == 1:
                    back.add((n, d))
            if not adv:
                color[n] = 2
                stack.pop()
        return back

    def _node_iter(self, order, nodes):
        """nodes in reverse post-order of their block; nodes created while iterating are picked up"""
        for bi in order:
            done = set()
            while True:
                cur = sorted((n for n in nodes if n[0] == bi and n not in done), key=lambda n: repr(n[1]))
                if not cur:
                    break
                for n in cur:
                    done.add(n)
                    yield n

    def _fresh_fact(self, f, prev):
        return False

    def _meet_same_block(self, lst):
        keys = set(lst[0].store.keys())
        for S in lst[1:]:
            keys &= set(S.store.keys())
        store = {k: lst[0].store[k] for k in keys if all(S.store[k] == lst[0].store[k] for S in lst[1:])}
        facts = set(lst[0].facts)
        for S in lst[1:]:
            facts &= S.facts
        return State(store, facts)
