"""A8: decision-table extraction from loop-free MIR bodies and evaluation of the extracted tables over
their whole finite domain (by the rule engine; nothing of /repo runs).

A table is a list of leaves (conditions, result term).  Terms:
  ("arg", i) | ("const", v) | ("variant", adt, vname, [terms]) | ("tuple", [terms]) | ("payload", term, vname, fidx)
  ("field", term, name) | ("bin", op, a, b, width, signed) | ("un", op, a, width) | ("cast", a, width, signed)
  ("call", callee-id, [terms], callee-def) | ("okpayload", term) | ("opaque", tag) | ("discr", term) | ("ref", term)
"""
import re


class NotATable(Exception):
    pass


def _ty_width(t):
    if t["k"] == "int":
        return t["w"], t["sg"]
    if t["k"] == "bool":
        return 1, False
    return None, False


class Extractor:
    def __init__(self, prog, body, max_leaves=4000, stop_at_loops=False):
        self.prog = prog
        self.b = body
        self.leaves = []
        self.max_leaves = max_leaves
        self.stop_at_loops = stop_at_loops
        self.leaf_effects = []     # per leaf: the calls made along the path, in order: (callee def, [arg terms])
        self._eff = []

    def place_term(self, env, pl):
        key = pl["l"]
        t = env.get(key)
        if t is None:
            if 1 <= key <= self.b.argc:
                t = ("arg", key)
            else:
                t = ("opaque", "uninit _%d" % key)
        for p in pl["p"]:
            if p == "d":
                if t[0] == "ref":
                    t = t[1]
                # deref of a reference argument denotes the referenced value itself
                continue
            if isinstance(p, dict) and "dc" in p:
                t = ("downcast", t, p["n"])
            elif isinstance(p, dict) and "f" in p:
                if t[0] == "downcast":
                    inner = t[1]
                    if inner[0] == "variant" and inner[2] == t[2] and p["f"] < len(inner[3]):
                        t = inner[3][p["f"]]
                    else:
                        t = ("payload", inner, t[2], p["f"])
                elif t[0] == "variant" and p["f"] < len(t[3]):
                    t = t[3][p["f"]]
                elif t[0] == "tuple" and p["f"] < len(t[1]):
                    t = t[1][p["f"]]
                elif t[0] == "ovf":
                    t = t[1] if p["f"] == 0 else ("const", 0)
                else:
                    t = ("field", t, p["n"] if p["n"] is not None else p["f"])
            elif isinstance(p, dict) and "cix" in p and not p.get("end"):
                t = ("index", t, ("const", int(p["cix"])))
            elif isinstance(p, dict) and "ix" in p:
                it = env.get(p["ix"])
                t = ("index", t, it if it is not None else ("opaque", "index _%d" % p["ix"]))
            else:
                t = ("opaque", "proj")
        return t

    def op_term(self, env, op):
        if op["o"] in ("copy", "move"):
            return self.place_term(env, op["pl"])
        if op["o"] == "const":
            k = op["k"]
            if k["c"] == "int":
                return ("const", int(k["v"]))
            pv = self.prog.promoted_value(op)
            if pv is not None:
                pf = self.prog.promoted_fields(op) or []
                return ("ref", ("variant", pv[0], pv[1], [("const", x) for x in pf]))
            if k["c"] == "fn":
                return ("fn", k["callee"]["id"], k["callee"]["def"], tuple(k["callee"].get("may_call") or ()))
            if k["c"] == "zst":
                return ("const", 0)
            return ("opaque", "const " + str(k.get("s", k["c"])))
        return ("opaque", "op")

    def rv_term(self, env, rv, dest_ty):
        k = rv["k"]
        if k == "use":
            return self.op_term(env, rv["op"])
        if k == "ref":
            return ("ref", self.place_term(env, rv["pl"]))
        if k == "bin":
            a = self.op_term(env, rv["a"])
            b = self.op_term(env, rv["b"])
            ta = self.b.ty(rv["a"]["pl"]["t"]) if rv["a"]["o"] != "const" else self.b.ty(rv["a"]["k"]["t"])
            w, sg = _ty_width(ta)
            op = rv["op"]
            if op.endswith("WithOverflow"):
                return ("ovf", ("bin", op.replace("WithOverflow", ""), a, b, w, sg))
            return ("bin", op, a, b, w, sg)
        if k == "un":
            a = self.op_term(env, rv["a"])
            w, sg = _ty_width(dest_ty)
            return ("un", rv["op"], a, w)
        if k == "cast":
            a = self.op_term(env, rv["op"])
            w, sg = _ty_width(dest_ty)
            if rv["ck"] == "IntToInt" and w is not None:
                return ("cast", a, w, sg)
            return a
        if k == "discr":
            return ("discr", self.place_term(env, rv["pl"]))
        if k == "agg":
            ops = [self.op_term(env, o) for o in rv["ops"]]
            if rv["ak"] == "adt":
                return ("variant", rv["adt"], rv["vn"], ops, tuple(rv["fields"]))
            if rv["ak"] == "tuple":
                return ("tuple", ops)
            if rv["ak"] == "closure":
                return ("closure", rv["def"], ops)
            if rv["ak"] == "array":
                return ("array", ops)
            return ("opaque", "agg " + rv["ak"])
        return ("opaque", "rv " + k)

    def run(self):
        self.walk(0, {}, [], set())
        return self.leaves

    def walk(self, bi, env, conds, onpath, effects=()):
        b = self.b
        effects = list(effects)
        while True:
            if bi in onpath:
                if self.stop_at_loops:
                    self.leaves.append((list(conds), ("loop", dict(env))))
                    self.leaf_effects.append(list(effects))
                    return
                raise NotATable("loop in %s" % b.qname)
            onpath = onpath | {bi}
            bl = b.blocks[bi]
            for s in bl["stmts"]:
                if s["s"] == "assign":
                    t = self.rv_term(env, s["rv"], b.ty(s["pl"]["t"]))
                    if not s["pl"]["p"]:
                        env = dict(env)
                        env[s["pl"]["l"]] = t
                    # stores through projections are ignored (tables only read)
            t = bl["term"]
            k = t["t"]
            if k == "goto":
                bi = t["target"]
                continue
            if k == "drop":
                bi = t["target"]
                continue
            if k == "return":
                res = env.get(0, ("opaque", "unset return"))
                self.leaves.append((list(conds), res))
                self.leaf_effects.append(list(effects))
                if len(self.leaves) > self.max_leaves:
                    raise NotATable("too many leaves")
                return
            if k == "unreachable":
                return
            if k == "assert":
                bi = t["target"]
                continue
            if k == "call":
                c = t["callee"]
                args = [self.op_term(env, a) for a in t["args"]]
                if c is None:
                    res = ("opaque", "indirect call")
                else:
                    name = c["def"]
                    if name.endswith("::Try>::branch") and args:
                        res = ("branch", args[0])
                    elif "::FromResidual<" in name:
                        res = ("variant", "std::result::Result", "Err", [("opaque", "residual")], ("0",))
                    elif name in ("<T as std::convert::Into<U>>::into", "<T as std::convert::From<T>>::from"):
                        mc = [m for m in c.get("may_call", []) if m in self.prog.bodies]
                        if len(mc) == 1:
                            res = ("call", mc[0], args, name)
                        else:
                            res = ("into", args[0], self.b.ty(t["dest"]["t"])["s"])
                    elif name == "<T as std::convert::TryInto<U>>::try_into":
                        mc = [m for m in c.get("may_call", []) if m in self.prog.bodies]
                        res = ("call", mc[0], args, name) if len(mc) == 1 else ("call", c["id"], args, name)
                    elif name == "std::result::Result::<T, E>::map" and len(args) == 2 and self._map_apply(args[1], ("okpayload", args[0])) is not None \
                            and t["target"] is not None and not t["dest"]["p"]:
                        # `x.map(Variant)` / `x.map(|v| Variant(.., v))` is `match x { Ok(v) => Ok(Variant(v)), Err(e) => Err(e) }`
                        effects.append((c["def"], args))
                        env_ok = dict(env)
                        env_ok[t["dest"]["l"]] = ("variant", "std::result::Result", "Ok", [self._map_apply(args[1], ("okpayload", args[0]))], ("0",))
                        self.walk(t["target"], env_ok, conds + [("ok", args[0])], onpath, effects)
                        env_err = dict(env)
                        env_err[t["dest"]["l"]] = ("variant", "std::result::Result", "Err", [("opaque", "propagated")], ("0",))
                        self.walk(t["target"], env_err, conds + [("err", args[0])], onpath, effects)
                        return
                    else:
                        res = ("call", c["id"], args, name)
                if c is not None:
                    effects.append((c["def"], args))
                if t["target"] is None:
                    return
                if not t["dest"]["p"]:
                    env = dict(env)
                    env[t["dest"]["l"]] = res
                bi = t["target"]
                continue
            if k == "switch":
                d = self.op_term(env, t["discr"])
                arms = [(int(v), tgt) for v, tgt in t["arms"]]
                if d[0] == "const":
                    hit = [tgt for v, tgt in arms if v == d[1]]
                    bi = hit[0] if hit else t["otherwise"]
                    continue
                # `?`: follow only the Continue edge for table purposes; record the Break edge as an error leaf
                if d[0] == "discr" and d[1][0] == "branch":
                    for v, tgt in arms:
                        env2 = dict(env)
                        if v == 0:
                            self._bind_continue(env2, t, d[1][1])
                            self.walk(tgt, env2, conds + [("ok", d[1][1])], onpath, effects)
                        elif self.b.local_ty(0)["s"].startswith(("std::option::Option<", "core::option::Option<")):
                            # `?` on an Option in a function returning Option: the residual is None
                            self.leaves.append((conds + [("err", d[1][1])], ("variant", "std::option::Option", "None", [], ())))
                        else:
                            self.leaves.append((conds + [("err", d[1][1])], ("variant", "std::result::Result", "Err",
                                                                             [("opaque", "propagated")], ("0",))))
                            self.leaf_effects.append(list(effects))
                    return
                seen_vals = []
                for v, tgt in arms:
                    self.walk(tgt, env, conds + [("eq", d, v)], onpath, effects)
                    seen_vals.append(v)
                self.walk(t["otherwise"], env, conds + [("notin", d, tuple(seen_vals))], onpath, effects)
                return
            raise NotATable("terminator %s in %s" % (k, b.qname))

    def _map_apply(self, f, payload):
        """the term `f(payload)` when f is the constructor of a tuple variant passed by name, or a closure whose body is a
        single unconditional leaf; None otherwise (the call then stays an opaque `map`)"""
        if f[0] == "fn":
            parts = strip_generics(f[2]).split("::")
            if len(parts) >= 2:
                vn, an = parts[-1], parts[-2]
                for name, a in self.prog.adts.items():
                    if name.split("::")[-1] == an and any(v["name"] == vn for v in a["variants"]):
                        return ("variant", name, vn, [payload], ("0",))
            return None
        if f[0] == "closure" and f[1] in self.prog.bodies:
            cb = self.prog.bodies[f[1]]
            try:
                leaves = Extractor(self.prog, cb).run()
            except NotATable:
                return None
            if len(leaves) != 1 or leaves[0][0]:
                return None
            caps = f[2]

            def sub(x):
                if not isinstance(x, tuple):
                    return x
                if x == ("arg", 2):
                    return payload
                if x and x[0] == "field" and x[1] == ("arg", 1) and isinstance(x[2], int) and x[2] < len(caps):
                    c0 = caps[x[2]]
                    return c0[1] if c0[0] == "ref" else c0
                if x == ("arg", 1):
                    return ("opaque", "closure environment")
                return tuple(sub(y) if isinstance(y, tuple) else ([sub(z) for z in y] if isinstance(y, list) else y) for y in x)
            return sub(leaves[0][1])
        return None

    def _bind_continue(self, env, t, inner):
        # the switch operand was `discriminant(_b)` with _b = branch(x): reads of (_b as Continue).0 give okpayload(x)
        disc = t["discr"]
        if disc["o"] in ("copy", "move"):
            l = disc["pl"]["l"]
            # find which local holds the branch term
            for k2, v2 in list(env.items()):
                if v2 == ("branch", inner):
                    env[k2] = ("variant", "std::ops::ControlFlow", "Continue", [("okpayload", inner)], ("0",))


_cache = {}


def table_of(prog, body):
    if body.id not in _cache:
        _cache[body.id] = Extractor(prog, body).run()
    return _cache[body.id]


# ----------------------------------------------------------------------------- evaluation

class Opaque:
    def __init__(self, tag):
        self.tag = tag

    def __repr__(self):
        return "<opaque %s>" % (self.tag,)

    def __eq__(self, o):
        return isinstance(o, Opaque) and o.tag == self.tag

    def __hash__(self):
        return hash(self.tag)


def strip_generics(s):
    out, depth = [], 0
    for ch in s:
        if ch == "<":
            depth += 1
        elif ch == ">":
            depth -= 1
        elif depth == 0:
            out.append(ch)
    return "".join(out).replace("::::", "::")


class EnumVal:
    __slots__ = ("adt", "v", "f")

    def __init__(self, adt, v, f=()):
        self.adt = adt.split("::")[-1]
        self.v = v
        self.f = tuple(f)

    def __eq__(self, o):
        return isinstance(o, EnumVal) and (self.adt, self.v, self.f) == (o.adt, o.v, o.f)

    def __hash__(self):
        return hash((self.adt, self.v, self.f))

    def __repr__(self):
        if self.f:
            return "%s::%s(%s)" % (self.adt, self.v, ", ".join(map(repr, self.f)))
        return "%s::%s" % (self.adt, self.v)


class Evaluator:
    def variant_ctor(self, fn_def):
        """(adt short name, variant) when `fn_def` is the constructor function of a tuple variant (`QCLASS::CLASS` used as a fn)"""
        parts = strip_generics(fn_def).split("::")
        if len(parts) < 2:
            return None
        vn, an = parts[-1], parts[-2]
        for name, a in self.prog.adts.items():
            if name.split("::")[-1] == an and any(v["name"] == vn for v in a["variants"]):
                return (an, vn)
        return None

    def __init__(self, prog, bindings=None):
        self.prog = prog
        self.bind = bindings or {}       # opaque tag / field-path -> value
        self.adt_by_short = {}
        for name, a in prog.adts.items():
            self.adt_by_short.setdefault(name.split("::")[-1], a)
        self.depth = 0

    def variant_index(self, val):
        a = self.adt_by_short.get(val.adt)
        if a is None:
            std = {"Result": ["Ok", "Err"], "Option": ["None", "Some"], "ControlFlow": ["Continue", "Break"]}
            return std[val.adt].index(val.v)
        for i, v in enumerate(a["variants"]):
            if v["name"] == val.v:
                return i
        raise KeyError(val)

    def discr_value(self, val):
        a = self.adt_by_short.get(val.adt)
        if a is None:
            return self.variant_index(val)
        for i, v in enumerate(a["variants"]):
            if v["name"] == val.v:
                return int(v["discr"]) if v["discr"] is not None else i
        raise KeyError(val)

    def call(self, body, args):
        self.depth += 1
        if self.depth > 12:
            self.depth -= 1
            return Opaque("recursion")
        try:
            leaves = table_of(self.prog, body)
            for conds, res in leaves:
                if self.conds_hold(conds, args):
                    return self.term(res, args)
            return Opaque("no leaf matched in %s" % body.qname)
        finally:
            self.depth -= 1

    def conds_hold(self, conds, args):
        for c in conds:
            if c[0] == "eq":
                v = self.switch_val(c[1], args)
                if isinstance(v, Opaque) or v != c[2]:
                    return False
            elif c[0] == "notin":
                v = self.switch_val(c[1], args)
                if isinstance(v, Opaque) or v in c[2]:
                    return False
            elif c[0] in ("ok", "err"):
                v = self.term(c[1], args)
                is_err = isinstance(v, EnumVal) and v.v in ("Err", "None", "Break")
                if (c[0] == "ok") == is_err:
                    return False
        return True

    def switch_val(self, t, args):
        v = self.term(t, args)
        if isinstance(v, bool):
            return 1 if v else 0
        return v

    def term(self, t, args):
        k = t[0]
        if k == "arg":
            return args[t[1] - 1]
        if k == "const":
            return t[1]
        if k == "ref":
            return self.term(t[1], args)
        if k == "variant":
            return EnumVal(t[1], t[2], [self.term(x, args) for x in t[3]])
        if k == "tuple":
            return tuple(self.term(x, args) for x in t[1])
        if k == "discr":
            v = self.term(t[1], args)
            if isinstance(v, EnumVal):
                return self.discr_value(v)
            return Opaque("discr of %r" % (v,))
        if k == "payload":
            v = self.term(t[1], args)
            if isinstance(v, EnumVal) and v.v == t[2] and t[3] < len(v.f):
                return v.f[t[3]]
            return Opaque("payload")
        if k == "downcast":
            return self.term(t[1], args)
        if k == "index":
            base = self.term(t[1], args)
            ix = self.term(t[2], args)
            hook = self.bind.get(("index_byte",))
            if hook is not None and isinstance(ix, int):
                return hook(base, ix)
            return Opaque("index")
        if k == "array":
            return ("arrayvals", tuple(self.term(x, args) for x in t[1]))
        if k == "field":
            v = self.term(t[1], args)
            if isinstance(v, dict) and t[2] in v:
                return v[t[2]]
            if isinstance(v, EnumVal) and isinstance(t[2], int) and t[2] < len(v.f):
                return v.f[t[2]]
            if isinstance(v, EnumVal) and isinstance(t[2], str) and t[2].isdigit() and int(t[2]) < len(v.f):
                return v.f[int(t[2])]          # field of a tuple struct (`self.0`)
            if isinstance(v, tuple) and v and v[0] == "closure" and isinstance(t[2], int) and t[2] < len(v[2]):
                return v[2][t[2]]
            if isinstance(v, tuple) and isinstance(t[2], int) and t[2] < len(v) and not (v and isinstance(v[0], str) and v[0] in ("closure", "fnitem", "slice")):
                return v[t[2]]
            return Opaque(("field", repr(v), t[2]))
        if k == "okpayload":
            v = self.term(t[1], args)
            if isinstance(v, EnumVal) and v.v in ("Ok", "Some") and v.f:
                return v.f[0]
            return Opaque(("okpayload", repr(v)))
        if k == "branch":
            return self.term(t[1], args)
        if k == "ovf":
            return self.term(t[1], args)
        if k == "cast":
            v = self.term(t[1], args)
            if isinstance(v, EnumVal):
                v = self.discr_value(v)
            if isinstance(v, bool):
                v = int(v)
            if isinstance(v, int):
                w = t[2]
                v &= (1 << w) - 1
                if t[3] and v >= (1 << (w - 1)):
                    v -= 1 << w
                return v
            return v
        if k == "into":
            return self.term(t[1], args)
        if k == "un":
            v = self.term(t[2], args)
            if isinstance(v, Opaque):
                return v
            if t[1] == "Not":
                if isinstance(v, bool) or t[3] == 1:
                    return 0 if v else 1
                return (~v) & ((1 << t[3]) - 1)
            if t[1] == "Neg":
                return -v
            return Opaque("un " + t[1])
        if k == "bin":
            a = self.term(t[2], args)
            b = self.term(t[3], args)
            op = t[1]
            if op in ("Eq", "Ne") and not isinstance(a, Opaque) and not isinstance(b, Opaque):
                r = (a == b)
                return int(r if op == "Eq" else not r)
            if isinstance(a, Opaque) or isinstance(b, Opaque):
                return Opaque(("bin", op, repr(a), repr(b)))
            if isinstance(a, EnumVal) or isinstance(b, EnumVal):
                return Opaque("bin on enum")
            if not isinstance(a, (int, bool)) or not isinstance(b, (int, bool)):
                return Opaque("bin on non-integer")
            a, b = int(a), int(b)
            w = t[4] or 64
            m = (1 << w) - 1
            r = {"Add": a + b, "Sub": a - b, "Mul": a * b, "BitAnd": a & b, "BitOr": a | b, "BitXor": a ^ b,
                 "Shl": a << (b & 127), "Shr": a >> (b & 127), "Lt": int(a < b), "Le": int(a <= b), "Gt": int(a > b),
                 "Ge": int(a >= b), "Div": a // b if b else 0, "Rem": a % b if b else 0}.get(op)
            if r is None:
                return Opaque("bin " + op)
            if op in ("Lt", "Le", "Gt", "Ge"):
                return r
            if not t[5]:
                r &= m
            return r
        if k == "call":
            cid, cargs, name = t[1], t[2], t[3]
            vals = [self.term(x, args) for x in cargs]
            hook = self.bind.get(("call", name)) or self.bind.get(("call", cid))
            if hook is not None:
                return hook(vals)
            m = re.match(r"^std::(result::Result::<T, E>|option::Option::<T>)::(map|map_err)$", name)
            if m and len(vals) == 2 and isinstance(vals[0], EnumVal):
                v0 = vals[0]
                applies = (m.group(2) == "map" and v0.v in ("Ok", "Some")) or (m.group(2) == "map_err" and v0.v == "Err")
                if not applies:
                    return v0
                f = vals[1]
                if isinstance(f, tuple) and f and f[0] == "closure" and f[1] in self.prog.bodies:
                    r = self.call(self.prog.bodies[f[1]], [f, v0.f[0] if v0.f else Opaque("unit")])
                    return EnumVal(v0.adt, v0.v, [r])
                if isinstance(f, tuple) and f and f[0] == "fnitem":
                    ctor = self.variant_ctor(f[2])
                    if ctor is not None:
                        return EnumVal(v0.adt, v0.v, [EnumVal(ctor[0], ctor[1], [v0.f[0]])])
                    hook2 = self.bind.get(("call", f[2]))
                    if hook2 is not None:
                        return EnumVal(v0.adt, v0.v, [hook2([v0.f[0]])])
                    if f[1] in self.prog.bodies:
                        return EnumVal(v0.adt, v0.v, [self.call(self.prog.bodies[f[1]], [v0.f[0]])])
                    # a generic std function passed by name (`.map(Into::into)`): the one workspace impl it dispatches to
                    mc = [x for x in (f[3] if len(f) > 3 else ()) if x in self.prog.bodies]
                    if len(mc) == 1:
                        return EnumVal(v0.adt, v0.v, [self.call(self.prog.bodies[mc[0]], [v0.f[0]])])
                return EnumVal(v0.adt, v0.v, [Opaque("mapped")])
            if re.match(r"^std::option::Option::<T>::(as_ref|as_mut|as_deref|as_deref_mut)$", name) and vals and isinstance(vals[0], EnumVal):
                return vals[0]
            if name.endswith("::trailing_zeros") and vals and isinstance(vals[0], int) and vals[0] > 0:
                return (vals[0] & -vals[0]).bit_length() - 1
            if re.search(r"as std::cmp::PartialEq>::(eq|ne)$", name) or name.startswith("std::cmp::impls::<impl std::cmp::PartialEq"):
                if any(isinstance(v, Opaque) for v in vals):
                    return Opaque("eq on opaque")
                r = vals[0] == vals[1]
                return int(r if not name.endswith("::ne") else not r)
            if name in ("core::bool::<impl bool>::then_some", "std::bool::<impl bool>::then_some") and len(vals) == 2 and isinstance(vals[0], (int, bool)):
                return EnumVal("Option", "Some", [vals[1]]) if vals[0] else EnumVal("Option", "None")
            if name == "std::ops::RangeInclusive::<Idx>::new" and len(vals) == 2:
                return EnumVal("RangeInclusive", "RangeInclusive", [vals[0], vals[1]])
            m2 = re.match(r"^std::ops::(Range|RangeInclusive|RangeTo|RangeFrom|RangeToInclusive)::<Idx>::contains$", name)
            if m2 and len(vals) == 2 and isinstance(vals[0], EnumVal) and isinstance(vals[1], int) and \
                    all(isinstance(x, int) for x in vals[0].f) and \
                    len(vals[0].f) == (2 if m2.group(1) in ("Range", "RangeInclusive") else 1):
                f, x = vals[0].f, vals[1]
                kind = m2.group(1)
                if kind == "Range":
                    return int(f[0] <= x < f[1])
                if kind == "RangeInclusive":
                    return int(f[0] <= x <= f[1])
                if kind == "RangeTo":
                    return int(x < f[0])
                if kind == "RangeToInclusive":
                    return int(x <= f[0])
                return int(x >= f[0])
            if name.startswith("std::convert::num::<impl std::convert::From<") and vals:
                return int(vals[0]) if not isinstance(vals[0], Opaque) else vals[0]
            body = self.prog.bodies.get(cid)
            if body is not None and body.kind != "Promoted":
                try:
                    return self.call(body, vals)
                except NotATable:
                    return Opaque("not a table: " + name)
            return Opaque(("call", name))
        if k == "closure":
            return ("closure", t[1], tuple(self.term(x, args) for x in t[2]))
        if k == "opaque":
            if t[1] in self.bind:
                return self.bind[t[1]]
            return Opaque(t[1])
        if k == "fn":
            return ("fnitem", t[1], t[2], t[3] if len(t) > 3 else ())
        return Opaque("term " + k)
