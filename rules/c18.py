"""C18 Type/class codes map one-to-one and query matching is exact."""
from common import Report, Violation, load_tsv
import tables
from tables import Evaluator, EnumVal, Opaque, NotATable

SPECIAL_QTYPES = {251: "IXFR", 252: "AXFR", 253: "MAILB", 254: "MAILA", 255: "ANY"}
CLASSES = {1: "IN", 2: "CS", 3: "CH", 4: "HS", 254: "NONE"}


def viol(report, rule, what, msg, where="-"):
    report.violate(Violation(report.key(what, rule, "table", msg[:90]), where, rule, "%s: %s" % (rule, msg)))


def run(ctx):
    prog = ctx.prog
    report = Report("C18", ctx, "R1 TYPE_CODE constants equal the IANA table and are distinct; R2 the switch tables of "
                    "TYPE/QTYPE/CLASS/QCLASS <-> u16, extracted from MIR, are evaluated for all 65536 codes: to(from(c)) = c, "
                    "unsupported codes take the Err arm, specials map to their mnemonics; R3 type_code(variant built by the "
                    "parse dispatch for TYPE t) = t for every t; R4 match_qtype / match_qclass tables: ANY, own type, MAILB group, "
                    "own class.")
    ev = Evaluator(prog)
    iana = {r[0]: int(r[1]) for r in load_tsv("iana.tsv")}
    B = {}
    for name, q in [("type_from", "simple_dns::<TYPE as From<u16>>::from"), ("type_to", "simple_dns::<u16 as From<TYPE>>::from"),
                    ("qtype_from", "simple_dns::<QTYPE as TryFrom<u16>>::try_from"), ("qtype_to", "simple_dns::<u16 as From<QTYPE>>::from"),
                    ("class_from", "simple_dns::<CLASS as TryFrom<u16>>::try_from"),
                    ("qclass_from", "simple_dns::<QCLASS as TryFrom<u16>>::try_from"), ("qclass_to", "simple_dns::<u16 as From<QCLASS>>::from"),
                    ("type_code", "simple_dns::RData::type_code"), ("parse_rdata", "simple_dns::dns::rdata::parse_rdata"),
                    ("match_qtype", "simple_dns::ResourceRecord::match_qtype"), ("match_qclass", "simple_dns::ResourceRecord::match_qclass")]:
        B[name] = ctx.must_find(report, q)
    if any(v is None for v in B.values()):
        return report.finish()
    # ---- R1
    tadt = prog.adts.get("simple_dns::dns::rdata::TYPE")
    radt = prog.adts.get("simple_dns::dns::rdata::RData")
    if tadt is None or radt is None:
        report.lost_anchor("TYPE / RData enums")
        return report.finish()
    tvariants = [v["name"] for v in tadt["variants"]]
    codes = {}
    for k in prog.consts.values():
        if k["name"] == "TYPE_CODE" and k["crate"] == "simple_dns" and k["v"] is not None and k["impl_self"]:
            short = k["impl_self"].split("::")[-1].split("<")[0]
            codes[short] = int(k["v"])
    report.floor("TYPE_CODE constants", len(codes), 41)
    seen = {}
    for short, c in sorted(codes.items()):
        report.count()
        want = iana.get(short)
        if want is None:
            viol(report, "C18-R1", short, "record type %s has no row in tables/iana.tsv" % short)
        elif want != c:
            viol(report, "C18-R1", short, "%s::TYPE_CODE = %d but IANA assigns %d" % (short, c, want))
        if c in seen:
            viol(report, "C18-R1", short, "TYPE_CODE %d is used by both %s and %s" % (c, seen[c], short))
        seen[c] = short
        report.nontriv("code:" + short)
    # ---- R2: all 65536 codes
    try:
        bad = []
        n_known = 0
        for c in range(65536):
            t = ev.call(B["type_from"], [c])
            back = ev.call(B["type_to"], [t])
            if back != c:
                bad.append("u16::from(TYPE::from(%d)) = %r (via %r)" % (c, back, t))
            if isinstance(t, EnumVal) and t.v != "Unknown":
                n_known += 1
                if iana.get(t.v) != c:
                    bad.append("TYPE::from(%d) = %r but IANA %s" % (c, t, iana.get(t.v)))
            # QTYPE
            q = ev.call(B["qtype_from"], [c])
            if isinstance(q, EnumVal) and q.v == "Ok":
                qv = q.f[0]
                qb = ev.call(B["qtype_to"], [qv])
                if qb != c:
                    bad.append("u16::from(QTYPE::try_from(%d)) = %r" % (c, qb))
                if c in SPECIAL_QTYPES and qv.v != SPECIAL_QTYPES[c]:
                    bad.append("QTYPE::try_from(%d) = %r, expected %s" % (c, qv, SPECIAL_QTYPES[c]))
                if c not in SPECIAL_QTYPES and not (isinstance(t, EnumVal) and t.v != "Unknown"):
                    bad.append("QTYPE::try_from(%d) accepted an unsupported code as %r" % (c, qv))
            elif isinstance(q, EnumVal) and q.v == "Err":
                if c in SPECIAL_QTYPES or (isinstance(t, EnumVal) and t.v != "Unknown"):
                    bad.append("QTYPE::try_from(%d) rejects a supported code" % c)
            else:
                bad.append("QTYPE::try_from(%d) not evaluable: %r" % (c, q))
            # CLASS / QCLASS
            cl = ev.call(B["class_from"], [c])
            if isinstance(cl, EnumVal) and cl.v == "Ok":
                v = cl.f[0]
                if ev.discr_value(v) != c or CLASSES.get(c) != v.v:
                    bad.append("CLASS::try_from(%d) = %r" % (c, v))
            elif isinstance(cl, EnumVal) and cl.v == "Err":
                if c in CLASSES:
                    bad.append("CLASS::try_from(%d) rejects a defined class" % c)
            else:
                bad.append("CLASS::try_from(%d) not evaluable: %r" % (c, cl))
            qc = ev.call(B["qclass_from"], [c])
            if isinstance(qc, EnumVal) and qc.v == "Ok":
                back = ev.call(B["qclass_to"], [qc.f[0]])
                if back != c:
                    bad.append("u16::from(QCLASS::try_from(%d)) = %r" % (c, back))
                if c == 255 and qc.f[0].v != "ANY":
                    bad.append("QCLASS 255 is not ANY")
                if c != 255 and c not in CLASSES:
                    bad.append("QCLASS::try_from(%d) accepted an undefined class" % c)
            elif isinstance(qc, EnumVal) and qc.v == "Err":
                if c == 255 or c in CLASSES:
                    bad.append("QCLASS::try_from(%d) rejects a defined class" % c)
            else:
                bad.append("QCLASS::try_from(%d) not evaluable: %r" % (c, qc))
            if len(bad) > 20:
                break
        report.count(65536 * 4)
        report.nontriv("tables:u16")
        report.extra["codes_evaluated"] = 65536
        report.extra["supported_types_found"] = n_known
        report.floor("supported TYPE codes recognised by TYPE::from", n_known, 41)
        for m in bad[:20]:
            viol(report, "C18-R2", "conversion tables", m)
        # reverse direction over variants
        for vn in tvariants:
            if vn == "Unknown":
                continue
            c = ev.call(B["type_to"], [EnumVal("TYPE", vn)])
            t = ev.call(B["type_from"], [c]) if isinstance(c, int) else c
            report.count()
            if t != EnumVal("TYPE", vn):
                viol(report, "C18-R2", "TYPE::" + vn, "TYPE::from(u16::from(TYPE::%s)) = %r" % (vn, t))
        report.sample({"table": "TYPE::from / u16::from(TYPE)", "domain": "0..=65535", "example": "28 -> TYPE::AAAA -> 28"})
    except NotATable as e:
        viol(report, "C18-R2", "conversion tables", "a conversion is no longer a loop-free decision table: %s" % e)
    # ---- R3: type_code of what the parse dispatch builds
    try:
        leaves = tables.table_of(prog, B["parse_rdata"])
        arms = {}
        for conds, res in leaves:
            if res[0] == "variant" and res[2] == "Ok":
                inner = res[3][0]
                tv = None
                for cnd in conds:
                    if cnd[0] == "eq" and cnd[1][0] == "discr" and cnd[1][1][0] != "call":   # (the TYPE matched on, not the outcome of a nested parse)
                        tv = cnd[2]
                if tv is not None and inner[0] == "variant":
                    arms[tv] = inner
        report.floor("parse dispatch arms", len(arms), 42)
        for ti, inner in sorted(arms.items()):
            tname = tvariants[ti]
            report.count()
            targs = [EnumVal("TYPE", tname, [4242] if tname == "Unknown" else [])]
            # build the RData value the arm constructs; payloads other than the NULL code are irrelevant
            f = []
            for x in inner[3]:
                v = Opaque("parsed payload") if x[0] == "okpayload" else ev.term(x, [Opaque("data"), Opaque("position"), targs[0]])
                f.append(v)
            rd = EnumVal("RData", inner[2], f)
            got = ev.call(B["type_code"], [rd])
            want = targs[0]
            report.nontriv("dispatch:" + tname)
            if got != want:
                viol(report, "C18-R3", "parse dispatch " + tname,
                     "a record parsed with TYPE::%s is built as RData::%s whose type_code() is %r, not %r (failing case: a "
                     "type-%s record compared with QTYPE::TYPE(TYPE::%s))" % (tname, inner[2], got, want,
                                                                             iana.get(tname, "?"), tname))
        report.sample({"table": "type_code(parse dispatch(t))", "domain": "%d TYPE variants" % len(arms)})
    except NotATable as e:
        viol(report, "C18-R3", "parse dispatch", "parse_rdata / type_code is not a decision table: %s" % e)
    # ---- R4: matching
    try:
        rvariants = [v["name"] for v in radt["variants"]]
        qadt = prog.adts.get("simple_dns::dns::QTYPE")
        n = 0
        for rv in rvariants:
            if rv in ("NULL", "Empty"):
                continue
            rd = EnumVal("RData", rv, [Opaque("payload")])
            rr = {"rdata": rd, "class": EnumVal("CLASS", "IN")}
            tcode = ev.call(B["type_code"], [rd])
            for qv in [v["name"] for v in qadt["variants"]]:
                qs = [EnumVal("QTYPE", qv, [])]
                if qv == "TYPE":
                    qs = [EnumVal("QTYPE", "TYPE", [EnumVal("TYPE", tv)]) for tv in tvariants if tv != "Unknown"]
                for q in qs:
                    r = ev.call(B["match_qtype"], [rr, q])
                    n += 1
                    if q.v == "ANY":
                        want = 1
                    elif q.v == "TYPE":
                        want = int(q.f[0] == tcode)
                    elif q.v == "MAILB":
                        want = int(rv in ("MB", "MG", "MR"))
                    else:
                        continue          # IXFR / AXFR / MAILA: not constrained by the property
                    if r != want:
                        viol(report, "C18-R4", "match_qtype", "match_qtype(record of type %s, %r) = %r, expected %r" % (rv, q, r, want))
        for cn in CLASSES.values():
            rr = {"rdata": EnumVal("RData", "A", [Opaque("payload")]), "class": EnumVal("CLASS", cn)}
            for q in [EnumVal("QCLASS", "ANY")] + [EnumVal("QCLASS", "CLASS", [EnumVal("CLASS", c2)]) for c2 in CLASSES.values()]:
                r = ev.call(B["match_qclass"], [rr, q])
                n += 1
                want = 1 if q.v == "ANY" else int(q.f[0].v == cn)
                if r != want:
                    viol(report, "C18-R4", "match_qclass", "match_qclass(class %s, %r) = %r, expected %r" % (cn, q, r, want))
        report.count(n)
        report.nontriv("match tables")
        report.extra["match_cases"] = n
        report.floor("match table cases", n, 1500)
        report.sample({"table": "match_qtype", "example": "record MB vs QTYPE::MAILB -> true; record A vs QTYPE::TYPE(AAAA) -> false"})
    except NotATable as e:
        viol(report, "C18-R4", "matching", "match_qtype / match_qclass is not a decision table: %s" % e)
    report.assumptions += ["tables are extracted from loop-free MIR bodies; a body that stops being table-shaped is reported",
                           "derived PartialEq on fieldless / payload enums is structural equality"]
    return report.finish()
