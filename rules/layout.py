"""A10: wire-layout facts derived from the numeric analysis: bytes a writer emits (W), value of len() (L)."""
import re
import zone
import panics
from lin import Lin


def variants_of_field_switch(b):
    """discriminant switches on places rooted at self: {place key: [discriminant values]}"""
    out = {}
    for bl in b.blocks:
        if bl["cleanup"]:
            continue
        t = bl["term"]
        if t["t"] != "switch":
            continue
    return out


def analyse(ctx, b, force=None):
    W = ctx.whole
    an = zone.Analyzer(b, W.summaries, W.cat, W.depth)
    disp = {}
    for (y, bi, why) in ctx.cg.edges.get(b.id, []):
        if why.startswith("instantiated") or why in ("cha", "default-method"):
            disp.setdefault(bi, []).append(y)
    an.dispatch = disp
    an.force = force
    an.run()
    return an


def ok_states(an):
    out = []
    b = an.b
    ret_t = b.local_ty(0)
    is_result = ret_t["k"] == "adt" and ret_t["name"].endswith("::Result")
    if not is_result:
        return [st for bi, st in an.ret_states]
    for bi, st, v in an.ok_points:
        if v is None:
            continue
        if v[0] == "adt" and v[2] == "Ok":
            out.append(st)
        elif v[0] == "callres":
            out.append(panics.apply_ok(an, st, v[1]))
    return out


def normalise_elem(e, an):
    """rename the per-iteration element root of loop / closure bodies to ELEM"""
    d = {}
    for s, k in e.t:
        s2 = re.sub(r"\(\*_\d+@Some\.0(\.\d+)?\)", "ELEM", s)
        s2 = re.sub(r"\(\*_2\)", "ELEM", s2)
        if an.b.kind != "Closure":
            s2 = re.sub(r"\(\*_1\)", "ELEM", s2)          # a fn item used as the mapped function takes the element as _1
        s2 = re.sub(r"_\d+@Some\.0(\.\d+)?", "ELEM", s2)
        d[s2] = d.get(s2, 0) + k
    return Lin(d, e.c)


def written_length(an, whole_results=None, depth=0):
    """(ok, description): total bytes written on the Ok paths as a structured form
       {"lin": Lin, "reps": [(source collection, per-iteration Lin)]} ; None when not extractable"""
    sts = ok_states(an)
    if not sts:
        return None, "no Ok return"
    wk = None
    b = an.b
    for i in range(1, b.argc + 1):
        t = b.local_ty(i)
        if t["k"] == "ref" and t["mut"] and b.ty(t["t"])["k"] == "param":
            wk = "(*_%d)" % i
    if wk is None:
        return None, "no writer parameter"
    entry = Lin.sym("wpos%s@entry" % wk)
    forms = []
    for st in sts:
        out = st.store.get("wpos:" + wk)
        if out is None or out[0] != "lin":
            return None, "writer position not tracked"
        e = out[1] - entry
        reps = []
        # loop-carried writer positions: replace phi by (value on loop entry) + REP
        guard = 0
        while guard < 8:
            guard += 1
            phis = [s for s in e.syms() if s.startswith("phi(") and s.endswith(":wpos:" + wk)]
            if not phis:
                break
            name = phis[0]
            node = None
            for n, (ph, incoming, back) in an.join_info.items():
                if "wpos:" + wk in ph and ph["wpos:" + wk][0] == name:
                    node = n
            if node is None:
                return None, "loop-carried writer position without a join"
            ph, incoming, back = an.join_info[node]
            nm, vs = ph["wpos:" + wk]
            fwd = [vs[i] for i in range(len(vs)) if not back[i]]
            bks = [vs[i] for i in range(len(vs)) if back[i]]
            if len(set(map(repr, fwd))) != 1 or not bks:
                return None, "writer position differs on the loop's forward edges"
            per = set()
            for v in bks:
                per.add(normalise_elem(v - Lin.sym(nm), an))
            if len(per) != 1:
                return None, "iterations of the loop write different amounts"
            src = loop_source(an, node)
            reps.append((src, list(per)[0]))
            e = zone.subst(e, nm, fwd[0])
        if any(s.startswith("phi(") or s.startswith("wpos") for s in e.syms()):
            return None, "writer position not exact (%r)" % e
        # helper writers (not WireFormat methods) are inlined
        for s in list(e.syms()):
            m = re.match(r"^H\[(.*?)\]\((.*)\)$", s)
            if not m:
                continue
            hb = an.b.prog.bodies.get(m.group(1))
            if hb is None or depth > 3:
                if m.group(1).endswith("io::Write::write"):
                    return None, "bytes are handed to std::io::Write::write, which may write only part of the buffer and still return Ok"
                return None, "helper %s not available" % m.group(1)
            han = whole_results.get(hb.id) if whole_results is not None else None
            if han is None:
                return None, "helper %s not analysed" % hb.qname
            hw, why = written_length(han, whole_results, depth + 1)
            if hw is None:
                return None, "helper %s: %s" % (hb.qname, why)
            coef = dict(e.t)[s]
            recv = m.group(2)
            hl = hw["lin"]
            for s2 in list(hl.syms()):
                ns = s2.replace("(*_1)", recv)
                if ns != s2:
                    hl = zone.subst(hl, s2, Lin.sym(ns))
            e = zone.subst(e, s, hl.scale(1)) if coef == 1 else None
            if e is None:
                return None, "helper scaled"
            for (src, per) in hw["reps"]:
                reps.append((src.replace("(*_1)", recv) if src else src, per))
        forms.append({"lin": e, "reps": sorted(reps, key=repr)})
    first = forms[0]
    for f in forms[1:]:
        if f["lin"] != first["lin"] or repr(f["reps"]) != repr(first["reps"]):
            return None, "Ok paths write different amounts (%r vs %r)" % (first, f)
    return first, ""


def loop_source(an, node):
    """collection the loop at `node` iterates over: the iterator value live on the loop's forward edge"""
    phis, incoming, back = an.join_info[node]
    srcs = set()
    for i, S in enumerate(incoming):
        if back[i]:
            continue
        for k, v in S.store.items():
            if v is not None and v[0] in ("iter", "enumiter") and re.match(r"^_\d+$", k):
                srcs.add(an.origin.get(v[1], v[1]))
    return sorted(srcs)[-1] if srcs else None


def len_value(an):
    sts = ok_states(an)
    vals = set()
    for st in sts:
        v = st.store.get("_0")
        if v is None or v[0] != "lin":
            return None, "len() result not tracked"
        vals.add(v[1])
    if len(vals) != 1:
        return None, "len() returns different forms on different paths"
    e = list(vals)[0]
    reps = []
    # an accumulator loop (`let mut n = c; for x in &self.v { n += f(x) }; n`): the loop-carried value is its value on loop
    # entry plus, per element of the iterated collection, what one iteration adds
    guard = 0
    while guard < 8:
        guard += 1
        phis = [s for s in e.syms() if s.startswith("phi(")]
        if not phis:
            break
        name = phis[0]
        node = var = None
        for n, (ph, incoming, back) in an.join_info.items():
            for k, (nm, vs) in ph.items():
                if nm == name:
                    node, var = n, k
        if node is None:
            return None, "loop-carried len() value without a join"
        ph, incoming, back = an.join_info[node]
        nm, vs = ph[var]
        fwd = [vs[i] for i in range(len(vs)) if not back[i]]
        bks = [vs[i] for i in range(len(vs)) if back[i]]
        if len(set(map(repr, fwd))) != 1 or not bks:
            return None, "accumulator differs on the loop's forward edges"
        per = set(normalise_elem(v - Lin.sym(nm), an) for v in bks)
        if len(per) != 1:
            return None, "iterations of the loop add different amounts"
        src = loop_source(an, node)
        if src is None:
            return None, "cannot identify the collection the accumulator loop iterates"
        coef = dict(e.t)[name]
        if coef != 1:
            return None, "accumulator scaled"
        reps.append((src, list(per)[0]))
        e = zone.subst(e, nm, fwd[0])
    for s in list(e.syms()):
        m = re.match(r"^SUM\[(.*)\]\((.*)\)$", s)
        if m:
            cb = an.b.prog.bodies.get(m.group(1))
            summ = None
            if cb is not None:
                can = zone.Analyzer(cb, an.summaries, an.cat, an.depth).run()
                rv = set()
                for bi, st in can.ret_states:
                    v = st.store.get("_0")
                    rv.add(v[1] if v is not None and v[0] == "lin" else None)
                if len(rv) == 1 and None not in rv:
                    summ = normalise_elem(list(rv)[0], can)
            if summ is None:
                return None, "closure of the sum is not a linear form"
            coef = dict(e.t)[s]
            if coef != 1:
                return None, "sum scaled"
            reps.append((m.group(2), summ))
            e = zone.subst(e, s, Lin.const(0))
    return {"lin": e, "reps": sorted(reps, key=repr)}, ""


def self_variants(prog, an):
    """{place key rooted at self: [(variant name, discriminant value)]} for the enum matches of a body"""
    out = {}
    for key, t in an.discr_types.items():
        if not key.startswith("(*_1)"):
            continue
        tt = t
        if tt["k"] != "adt":
            continue
        adt = prog.adts.get(tt["name"])
        if adt is None or adt["kind"] != "enum":
            continue
        out[key] = [(v["name"], int(v["discr"]) if v["discr"] is not None else i) for i, v in enumerate(adt["variants"])]
    return out


# ====================================================================== canonical consume / emit sequences

def _base_and_const(off):
    """offset Lin -> (base symbol or None, constant) when it has the shape base + c"""
    if off is None:
        return None
    if not off.t:
        return (None, off.c)
    if len(off.t) == 1 and off.t[0][1] == 1:
        return (off.t[0][0], off.c)
    return ("?" + repr(off), 0)


def parse_sequence(ctx, an):
    """ordered consume events of a parse body:
       {"kind": int|byte|sub|raw|rest, "width", "order", "type", "base", "c", "bi", "field"}"""
    b = an.b
    data_root = "_1"
    evs = []
    for r in an.reads:
        if r["root"] != data_root:
            continue
        bc = _base_and_const(r["off"])
        evs.append({"kind": "int", "width": r["width"], "order": r["order"], "base": bc[0], "c": bc[1], "bi": r["bi"], "sym": r["sym"],
                    "signed": r.get("signed")})
    covered = set()
    for e in an.elems:
        if e.get("covered"):
            continue
        if e["root"] != data_root:
            continue
        bc = _base_and_const(e["off"])
        evs.append({"kind": "int", "width": 1, "order": "BE", "base": bc[0], "c": bc[1], "bi": e["bi"], "sym": e["sym"]})
    # sub-parsers
    for cs, info in an.pending.items():
        pc = info.get("parse_call")
        if not pc:
            continue
        c = pc["callee"]
        if c["name"] != "parse":
            continue
        cur = pc["argmap"].get("(*_2)@entry") if pc.get("argmap") else None
        if cur is None:
            continue
        bc = _base_and_const(cur)
        tshort = zone._short((c.get("impl") or {}).get("self")) if c.get("impl") else None
        evs.append({"kind": "sub", "type": tshort or "dyn", "base": bc[0], "c": bc[1], "bi": pc["bi"], "cs": cs})
    # raw slices: those not consumed by an integer read and not merely a window around other events
    ints = [(e["base"], e["c"], e["width"]) for e in evs if e["kind"] == "int"]
    for s in an.slices:
        if s["root"] != data_root:
            continue
        bc = _base_and_const(s["off"])
        ln = s["len"]
        if s["kind"] == "rangefrom" and not (ln is not None and ln.is_const()):
            # (an open-ended slice of a window of known size is a window of known size: `w[12..]` of a 16-byte window is 4 bytes)
            evs.append({"kind": "rest", "base": bc[0], "c": bc[1], "bi": s["bi"], "sid": s["sid"]})
            continue
        if s["kind"] in ("rangeto", "rangefull"):
            continue          # prefix windows handed to sub-parsers
        if ln.is_const():
            w = ln.c
            if (bc[0], bc[1], w) in ints:
                continue
            inside = [i for i in ints if i[0] == bc[0] and bc[1] <= i[1] and i[1] + i[2] <= bc[1] + w]
            if inside:
                continue
            evs.append({"kind": "raw", "width": w, "base": bc[0], "c": bc[1], "bi": s["bi"], "sid": s["sid"]})
        else:
            evs.append({"kind": "raw", "width": None, "lenexpr": ln, "base": bc[0], "c": bc[1], "bi": s["bi"], "sid": s["sid"]})
    # drop duplicate byte reads of the same position (a length byte is read several times)
    seen = set()
    out = []
    for e in sorted(evs, key=lambda x: (x["bi"], x["c"])):
        k = (e["kind"], e["base"], e["c"], e.get("width"))
        if k in seen:
            continue
        seen.add(k)
        out.append(e)
    return out


def segment_order(an, evs):
    """rank of each offset base: the entry cursor first, then the cursor left by each sub-parser in program order,
       loop-carried cursors (phi) form repeat groups"""
    rank = {"(*_2)@entry": 0, None: 0}
    subs = sorted([e for e in evs if e["kind"] == "sub"], key=lambda x: x["bi"])
    n = 1
    for e in subs:
        info = an.pending.get(e["cs"], {}).get("parse_call")
        cur = info.get("cursor") if info else None
        if cur and cur[2] is not None:
            after = cur[2].t[0][0] if cur[2].t else None
            if after not in rank:
                rank[after] = n
                n += 1
    return rank


def ordered(an, evs):
    rank = segment_order(an, evs)
    top, loops = [], {}
    for e in evs:
        base = e["base"]
        if isinstance(base, str) and base.startswith("phi("):
            loops.setdefault(base, []).append(e)
        elif base in rank:
            top.append(e)
        else:
            e = dict(e)
            e["unplaced"] = True
            top.append(e)
    top.sort(key=lambda e: (rank.get(e["base"], 99), e["c"], 0 if e["kind"] != "sub" else 1))
    reps = []
    for base, es in loops.items():
        es.sort(key=lambda e: (e["c"], e["bi"]))
        reps.append((base, es))
    return top, reps


def fields_of_ok(an):
    """symbol / call-site -> field name from the aggregate returned on the Ok path"""
    m = {}
    for bi, st, v in an.ok_points:
        if not (v and v[0] == "adt" and v[2] == "Ok" and v[3] and v[3][0] and v[3][0][0] == "adt"):
            continue
        agg = v[3][0]
        for fn, fv in zip(agg[4], agg[3]):
            if fv is None:
                continue
            if fv[0] == "lin" and len(fv[1].t) == 1:
                m[fv[1].t[0][0]] = fn
                d = an.derived.get(fv[1].t[0][0])
                if d is not None and len(d.t) == 1:
                    m[d.t[0][0]] = fn
            elif fv[0] == "parsed":
                m[fv[1]] = fn
            elif fv[0] == "arr":
                m[fv[1]] = fn
            elif fv[0] == "adt":
                stack = [fv]
                while stack:
                    x = stack.pop()
                    if x is None:
                        continue
                    if x[0] == "slice":
                        m[x[1]] = fn
                    elif x[0] == "adt":
                        stack.extend(x[3])
                    elif x[0] == "lin" and len(x[1].t) == 1:
                        m.setdefault(x[1].t[0][0], fn)
    return m


def describe_parse(ctx, an):
    """canonical item strings:  u16:field  name:field  cstr:field  rest:field  bytes6:field  rep{...}"""
    evs = parse_sequence(ctx, an)
    top, reps = ordered(an, evs)
    fm = fields_of_ok(an)

    def item(e):
        f = fm.get(e.get("sym")) or fm.get(e.get("cs")) or fm.get(e.get("sid")) or ""
        if e["kind"] == "int":
            sg = "i" if e.get("signed") else "u"
            return "%s%d%s%s" % (sg, e["width"] * 8, "" if e["order"] == "BE" or e["width"] == 1 else "le", (":" + f) if f != "" else "")
        if e["kind"] == "sub":
            nm = {"Name": "name", "CharacterString": "cstr"}.get(e["type"], "sub:" + e["type"])
            return nm + ((":" + f) if f != "" and not nm.startswith("sub:") else "")
        if e["kind"] == "rest":
            return "rest" + ((":" + f) if f != "" else "")
        if e["kind"] == "raw":
            return ("bytes%d" % e["width"] if e["width"] is not None else "raw") + ((":" + f) if f != "" else "")
        return "?"
    seq = [item(e) for e in top]
    contiguous = True
    # contiguity of the fixed-offset part of each segment
    by_base = {}
    for e in top:
        by_base.setdefault(e["base"], []).append(e)
    gaps = []
    for base, es in by_base.items():
        pos = None
        for e in es:
            if pos is not None and e["c"] != pos and e["kind"] != "sub":
                gaps.append("%s reads at +%d, expected +%d" % (item(e), e["c"], pos))
            if e["kind"] == "int" or (e["kind"] == "raw" and e["width"] is not None):
                pos = e["c"] + e["width"]
            elif e["kind"] == "sub":
                pos = None
            else:
                pos = None
    # what follows a nested parse (a name, a character-string) is read at the cursor that parse left - not at an offset
    # computed some other way (e.g. start + name.len(), which is the uncompressed length: wrong as soon as the name ends in a
    # compression pointer)
    for prev, e in zip(top, top[1:]):
        if prev["kind"] == "sub" and e["kind"] in ("int", "raw") and isinstance(prev.get("bi"), int) and str(prev.get("base", "")).startswith("(*_2)"):
            want = "(*_2)@bb%d" % prev["bi"]
            if e["base"] != want and str(e["base"]).startswith("?"):
                gaps.append("%s reads at %s, not at the cursor left by the preceding %s" % (item(e), str(e["base"])[1:60], prev.get("type", "element")))
    for base, es in reps:
        seq.append("rep{" + " ".join(item(e).split(":")[0] for e in es) + "}")
    return seq, gaps, top, reps


def describe_write(ctx, an):
    """canonical item strings for the bytes a write_to body emits, in emission order"""
    import loops as loopmod
    b = an.b
    lps, irr, dom = loopmod.natural_loops(b)
    in_loop = {}
    for h, info in lps.items():
        for x in info["body"]:
            in_loop[x] = h
    # a block from which the loop head is no longer reached on any path the analysis follows (the closure / helper it sits in
    # returns "stop" and the caller leaves the loop) is not part of the repetition
    if getattr(an, "node_edges", None):
        for x, h in list(in_loop.items()):
            if x != h and any(e["bi"] == x for e in an.emits) and h not in an.blocks_reachable(x):
                del in_loop[x]
    order = {bi: i for i, bi in enumerate(an.rpo())}
    seq = []
    loop_items = {}
    for e in sorted(an.emits, key=lambda x: order.get(x["bi"], 1 << 20)):
        items = []
        if e["kind"] == "nested":
            nm = {"Name": "name", "CharacterString": "cstr"}.get(e["type"], "sub:%s" % e["type"])
            f = field_of_place(e["recv"])
            items.append(nm + ((":" + f) if f and not nm.startswith("sub:") else ""))
        else:
            s = e["src"]
            if s[0] == "int":
                f = field_of_place(s[3][1]) if s[3] and s[3][0] == "place" else ""
                items.append("%s%d%s%s" % ("u", s[2] * 8, "" if s[1] == "BE" or s[2] == 1 else "le", (":" + f) if f else ""))
            elif s[0] == "int-part":
                f = field_of_place(s[3][1]) if s[3] and s[3][0] == "place" else ""
                wr = s[5].c if s[5] is not None and s[5].is_const() else None
                off0 = s[4].c if s[4] is not None and s[4].is_const() else None
                # which bytes of the integer's byte image, in which order: the low-order `wr` bytes most significant first
                # (`to_be_bytes()[W-wr..]`) are a big-endian integer of wr bytes; the same bytes taken from the little-endian
                # image come out reversed; anything else (high-order bytes, a middle slice) is neither
                if wr is not None and off0 is not None and s[1] == "BE" and off0 + wr == s[2]:
                    sfx = ""
                elif wr is not None and off0 == 0 and s[1] == "LE":
                    sfx = "le"
                else:
                    sfx = "@%s%s" % (s[1], off0 if off0 is not None else "?")
                items.append("u%s%s%s" % (wr * 8 if wr else "?", sfx, (":" + f) if f else ""))
            elif s[0] == "array":
                for src in (s[2] or [None] * s[1]):
                    if src is not None and src[0] == "place":
                        f = field_of_place(src[1])
                        items.append("u8" + ((":" + f) if f else ""))
                    elif src is not None and src[0] == "const":
                        items.append("u8=%s" % src[1])
                    else:
                        items.append("u8")
            elif s[0] == "raw":
                f = field_of_place(s[1])
                ln = e["len"]
                if ln is not None and ln.is_const():
                    items.append("bytes%d%s" % (ln.c, (":" + f) if f else ""))
                else:
                    items.append("raw" + ((":" + f) if f else ""))
            else:
                items.append("?")
        h = in_loop.get(e["bi"])
        if h is not None:
            loop_items.setdefault(h, []).extend(items)
        else:
            seq.extend(items)
    for h in sorted(loop_items):
        seq.append("rep{" + " ".join(x.split(":")[0] for x in loop_items[h]) + "}")
    return seq


def field_of_place(p):
    """(*_1).priority -> priority ; (*_1).0 -> 0 ; (*_1).gateway@Domain.0 -> gateway"""
    if p is None:
        return ""
    m = re.match(r"^\(\*_1\)\.([A-Za-z_0-9]+)", p)
    if m:
        return m.group(1)
    m = re.search(r"\.([A-Za-z_][A-Za-z_0-9]*)$", p)
    return m.group(1) if m and "ELEM" in p else ""


# ====================================================================== normalisation and comparison

def norm_item(x, keep_field=True):
    x = re.sub(r"^i(\d+)", r"u\1", x)
    if not keep_field:
        x = x.split(":")[0]
    return x


def normalise(seq, side, mirror=False):
    """make parse- and write-side sequences comparable"""
    out = []
    for i, x in enumerate(seq):
        x = norm_item(x)
        if side == "write" and x.startswith("raw") and i == len(seq) - 1 and not mirror:
            x = "rest" + x[3:]
        out.append(x)
    return out


def drop_covered_bytes(top):
    """byte reads that are part of a wider read built from the same bytes are not separate items"""
    wide = [(e["base"], e["c"], e["width"]) for e in top if e["kind"] == "int" and e["width"] > 1]
    out = []
    for e in top:
        if e["kind"] == "int" and e["width"] == 1 and any(b == e["base"] and c <= e["c"] < c + w for b, c, w in wide):
            continue
        out.append(e)
    return out


def items_match(a, b):
    """equal kinds / widths; field names must agree where both sides know them"""
    ka, kb = a.split(":")[0], b.split(":")[0]
    if {ka, kb} == {"raw", "rest"}:
        ka = kb = "raw"      # the writer cannot tell a length-prefixed tail from "all remaining bytes"
    if ka != kb:
        return False
    fa = a.split(":")[1] if ":" in a else None
    fb = b.split(":")[1] if ":" in b else None
    if fa is not None and fb is not None and fa != fb:
        return False
    return True


def seq_match(a, b):
    return len(a) == len(b) and all(items_match(x, y) for x, y in zip(a, b))


def write_sequence_inlined(ctx, an, depth=0):
    """describe_write with helper writers (non-WireFormat methods such as write_common) inlined"""
    seq = describe_write(ctx, an)
    if depth > 3:
        return seq
    helpers = [e for e in an.emits if e["kind"] == "nested" and e["fn"] not in ("write_to", "write_compressed_to")]
    if not helpers:
        return seq
    out = []
    order = {bi: i for i, bi in enumerate(an.rpo())}
    hq = sorted(helpers, key=lambda x: order.get(x["bi"], 0))
    hi = 0
    for x in seq:
        if x.startswith("sub:") and hi < len(hq) and x == "sub:%s" % hq[hi]["type"]:
            hb = an.b.prog.bodies.get(hq[hi]["callee_id"])
            han = ctx.whole.results.get(hb.id) if hb is not None else None
            hi += 1
            if han is not None:
                out.extend(write_sequence_inlined(ctx, han, depth + 1))
                continue
        out.append(x)
    return out


def parse_sequence_clean(ctx, an):
    seq, gaps, top, reps = describe_parse(ctx, an)
    top2 = drop_covered_bytes(top)
    if len(top2) != len(top):
        # rebuild strings and gaps without the covered bytes
        an2 = an
        fm = fields_of_ok(an)
        evs = top2
        # reuse describe_parse's formatting through a tiny shim
        seq2 = []
        for e in evs:
            f = fm.get(e.get("sym")) or fm.get(e.get("cs")) or fm.get(e.get("sid")) or ""
            if e["kind"] == "int":
                sg = "i" if e.get("signed") else "u"
                seq2.append("%s%d%s" % (sg, e["width"] * 8, (":" + f) if f != "" else ""))
            elif e["kind"] == "sub":
                nm = {"Name": "name", "CharacterString": "cstr"}.get(e["type"], "sub:" + e["type"])
                seq2.append(nm + ((":" + f) if f != "" and not nm.startswith("sub:") else ""))
            elif e["kind"] == "rest":
                seq2.append("rest" + ((":" + f) if f != "" else ""))
            else:
                seq2.append(("bytes%d" % e["width"] if e["width"] is not None else "raw") + ((":" + f) if f != "" else ""))
        seq2 += [x for x in seq if x.startswith("rep{")]
        gaps2 = []
        by_base = {}
        for e in top2:
            by_base.setdefault(e["base"], []).append(e)
        for base, es in by_base.items():
            pos = None
            for e in es:
                if pos is not None and e["c"] != pos and e["kind"] != "sub":
                    gaps2.append("item at +%d, expected +%d" % (e["c"], pos))
                if e["kind"] == "int" or (e["kind"] == "raw" and e["width"] is not None):
                    pos = e["c"] + e["width"]
                else:
                    pos = None
        return seq2, gaps2
    return seq, gaps
