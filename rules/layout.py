"""A10: wire-layout facts derived from the numeric analysis: bytes a writer emits (W), value of len() (L)."""
import re
import zone
import panics
from lin import Lin


def variants_of_field_switch(b):
    """discriminant switches on places rooted at self: {place key: [discriminant values]}"""
    out = {}
    for bl in b.blocks:
        if bl["cleanup"]:
            continue
        t = bl["term"]
        if t["t"] != "switch":
            continue
    return out


def analyse(ctx, b, force=None):
    W = ctx.whole
    an = zone.Analyzer(b, W.summaries, W.cat, W.depth)
    disp = {}
    for (y, bi, why) in ctx.cg.edges.get(b.id, []):
        if why.startswith("instantiated") or why in ("cha", "default-method"):
            disp.setdefault(bi, []).append(y)
    an.dispatch = disp
    an.force = force
    an.run()
    return an


def ok_states(an):
    out = []
    b = an.b
    ret_t = b.local_ty(0)
    is_result = ret_t["k"] == "adt" and ret_t["name"].endswith("::Result")
    if not is_result:
        return [st for bi, st in an.ret_states]
    for bi, st, v in an.ok_points:
        if v is None:
            continue
        if v[0] == "adt" and v[2] == "Ok":
            out.append(st)
        elif v[0] == "callres":
            out.append(panics.apply_ok(an, st, v[1]))
    return out


def normalise_elem(e, an):
    """rename the per-iteration element root of loop / closure bodies to ELEM"""
    d = {}
    for s, k in e.t:
        s2 = re.sub(r"\(\*_\d+@Some\.0(\.\d+)?\)", "ELEM", s)
        s2 = re.sub(r"\(\*_2\)", "ELEM", s2)
        s2 = re.sub(r"_\d+@Some\.0(\.\d+)?", "ELEM", s2)
        d[s2] = d.get(s2, 0) + k
    return Lin(d, e.c)


def written_length(an, whole_results=None, depth=0):
    """(ok, description): total bytes written on the Ok paths as a structured form
       {"lin": Lin, "reps": [(source collection, per-iteration Lin)]} ; None when not extractable"""
    sts = ok_states(an)
    if not sts:
        return None, "no Ok return"
    wk = None
    b = an.b
    for i in range(1, b.argc + 1):
        t = b.local_ty(i)
        if t["k"] == "ref" and t["mut"] and b.ty(t["t"])["k"] == "param":
            wk = "(*_%d)" % i
    if wk is None:
        return None, "no writer parameter"
    entry = Lin.sym("wpos%s@entry" % wk)
    forms = []
    for st in sts:
        out = st.store.get("wpos:" + wk)
        if out is None or out[0] != "lin":
            return None, "writer position not tracked"
        e = out[1] - entry
        reps = []
        # loop-carried writer positions: replace phi by (value on loop entry) + REP
        guard = 0
        while guard < 8:
            guard += 1
            phis = [s for s in e.syms() if s.startswith("phi(") and s.endswith(":wpos:" + wk)]
            if not phis:
                break
            name = phis[0]
            node = None
            for n, (ph, incoming, back) in an.join_info.items():
                if "wpos:" + wk in ph and ph["wpos:" + wk][0] == name:
                    node = n
            if node is None:
                return None, "loop-carried writer position without a join"
            ph, incoming, back = an.join_info[node]
            nm, vs = ph["wpos:" + wk]
            fwd = [vs[i] for i in range(len(vs)) if not back[i]]
            bks = [vs[i] for i in range(len(vs)) if back[i]]
            if len(set(map(repr, fwd))) != 1 or not bks:
                return None, "writer position differs on the loop's forward edges"
            per = set()
            for v in bks:
                per.add(normalise_elem(v - Lin.sym(nm), an))
            if len(per) != 1:
                return None, "iterations of the loop write different amounts"
            src = loop_source(an, node)
            reps.append((src, list(per)[0]))
            e = zone.subst(e, nm, fwd[0])
        if any(s.startswith("phi(") or s.startswith("wpos") for s in e.syms()):
            return None, "writer position not exact (%r)" % e
        # helper writers (not WireFormat methods) are inlined
        for s in list(e.syms()):
            m = re.match(r"^H\[(.*?)\]\((.*)\)$", s)
            if not m:
                continue
            hb = an.b.prog.bodies.get(m.group(1))
            if hb is None or depth > 3:
                return None, "helper %s not available" % m.group(1)
            han = whole_results.get(hb.id) if whole_results is not None else None
            if han is None:
                return None, "helper %s not analysed" % hb.qname
            hw, why = written_length(han, whole_results, depth + 1)
            if hw is None:
                return None, "helper %s: %s" % (hb.qname, why)
            coef = dict(e.t)[s]
            recv = m.group(2)
            hl = hw["lin"]
            for s2 in list(hl.syms()):
                ns = s2.replace("(*_1)", recv)
                if ns != s2:
                    hl = zone.subst(hl, s2, Lin.sym(ns))
            e = zone.subst(e, s, hl.scale(1)) if coef == 1 else None
            if e is None:
                return None, "helper scaled"
            for (src, per) in hw["reps"]:
                reps.append((src.replace("(*_1)", recv) if src else src, per))
        forms.append({"lin": e, "reps": sorted(reps, key=repr)})
    first = forms[0]
    for f in forms[1:]:
        if f["lin"] != first["lin"] or repr(f["reps"]) != repr(first["reps"]):
            return None, "Ok paths write different amounts (%r vs %r)" % (first, f)
    return first, ""


def loop_source(an, node):
    """collection the loop at `node` iterates over: the iterator value live on the loop's forward edge"""
    phis, incoming, back = an.join_info[node]
    srcs = set()
    for i, S in enumerate(incoming):
        if back[i]:
            continue
        for k, v in S.store.items():
            if v is not None and v[0] in ("iter", "enumiter") and re.match(r"^_\d+$", k):
                srcs.add(an.origin.get(v[1], v[1]))
    return sorted(srcs)[-1] if srcs else None


def len_value(an):
    sts = ok_states(an)
    vals = set()
    for st in sts:
        v = st.store.get("_0")
        if v is None or v[0] != "lin":
            return None, "len() result not tracked"
        vals.add(v[1])
    if len(vals) != 1:
        return None, "len() returns different forms on different paths"
    e = list(vals)[0]
    reps = []
    for s in list(e.syms()):
        m = re.match(r"^SUM\[(.*)\]\((.*)\)$", s)
        if m:
            cb = an.b.prog.bodies.get(m.group(1))
            summ = None
            if cb is not None:
                can = zone.Analyzer(cb, an.summaries, an.cat, an.depth).run()
                rv = set()
                for bi, st in can.ret_states:
                    v = st.store.get("_0")
                    rv.add(v[1] if v is not None and v[0] == "lin" else None)
                if len(rv) == 1 and None not in rv:
                    summ = normalise_elem(list(rv)[0], can)
            if summ is None:
                return None, "closure of the sum is not a linear form"
            coef = dict(e.t)[s]
            if coef != 1:
                return None, "sum scaled"
            reps.append((m.group(2), summ))
            e = zone.subst(e, s, Lin.const(0))
    return {"lin": e, "reps": sorted(reps, key=repr)}, ""


def self_variants(prog, an):
    """{place key rooted at self: [(variant name, discriminant value)]} for the enum matches of a body"""
    out = {}
    for key, t in an.discr_types.items():
        if not key.startswith("(*_1)"):
            continue
        tt = t
        if tt["k"] != "adt":
            continue
        adt = prog.adts.get(tt["name"])
        if adt is None or adt["kind"] != "enum":
            continue
        out[key] = [(v["name"], int(v["discr"]) if v["discr"] is not None else i) for i, v in enumerate(adt["variants"])]
    return out
