"""A7 helpers on one MIR body: dominators, reachability, single-definition chains, call lookup."""
import re


def noncleanup_blocks(b):
    return [i for i, bl in enumerate(b.blocks) if not bl["cleanup"]]


def dominators(b):
    """idom-free simple iterative dominator sets (bodies are small)"""
    blocks = noncleanup_blocks(b)
    preds = b.compute_preds()
    allb = set(blocks)
    dom = {i: set(allb) for i in blocks}
    dom[0] = {0}
    changed = True
    while changed:
        changed = False
        for i in blocks:
            if i == 0:
                continue
            ps = [p for p in preds[i] if p in dom]
            if not ps:
                new = {i}
            else:
                new = set.intersection(*[dom[p] for p in ps]) | {i}
            if new != dom[i]:
                dom[i] = new
                changed = True
    return dom


def reachable_from(b, start, avoid=()):
    seen = set()
    stack = [start]
    while stack:
        x = stack.pop()
        if x in seen or x in avoid:
            continue
        seen.add(x)
        for s in b.successors(x):
            stack.append(s)
    return seen


def defs_of(b):
    """local -> list of (block, stmt index or 'term', rvalue-or-terminator)"""
    out = {}
    for bi, bl in enumerate(b.blocks):
        if bl["cleanup"]:
            continue
        for si, s in enumerate(bl["stmts"]):
            if s["s"] == "assign" and not s["pl"]["p"]:
                out.setdefault(s["pl"]["l"], []).append((bi, si, s["rv"]))
        t = bl["term"]
        if t["t"] == "call" and not t["dest"]["p"]:
            out.setdefault(t["dest"]["l"], []).append((bi, "term", t))
    return out


def single_def(defs, l):
    d = defs.get(l, [])
    return d[0] if len(d) == 1 else None


def op_local(op):
    """local of a bare-local operand, else None"""
    if op and op.get("o") in ("copy", "move") and not op["pl"]["p"]:
        return op["pl"]["l"]
    return None


def calls(b, pattern):
    rx = re.compile(pattern)
    out = []
    for bi, bl in enumerate(b.blocks):
        if bl["cleanup"]:
            continue
        t = bl["term"]
        if t["t"] == "call" and t["callee"] and (rx.search(t["callee"]["def"]) or rx.search(t["callee"]["orig"])):
            out.append((bi, t))
    return out


def trace_back(b, defs, l, depth=12):
    """follow a chain of single definitions through moves / reborrows / derefs; yields the steps"""
    steps = []
    cur = l
    for _ in range(depth):
        d = single_def(defs, cur)
        if d is None:
            break
        bi, si, x = d
        steps.append((cur, bi, si, x))
        if si == "term":
            break
        k = x["k"]
        if k == "use":
            nxt = op_local(x["op"])
        elif k == "ref":
            nxt = x["pl"]["l"]
        elif k == "cast":
            nxt = op_local(x["op"])
        else:
            nxt = None
        if nxt is None:
            break
        cur = nxt
    return steps


def const_variant(op):
    """(adt short name, variant) when the operand is a fieldless enum constant exported as int"""
    return None


def aggregates(b, adt_suffix=None, variant=None):
    out = []
    for bi, bl in enumerate(b.blocks):
        if bl["cleanup"]:
            continue
        for si, s in enumerate(bl["stmts"]):
            if s["s"] == "assign" and s["rv"]["k"] == "agg" and s["rv"]["ak"] == "adt":
                rv = s["rv"]
                if adt_suffix and not rv["adt"].endswith(adt_suffix):
                    continue
                if variant and rv["vn"] != variant:
                    continue
                out.append((bi, si, s))
    return out


def origin_local(b, defs, l, depth=10):
    """follow plain copies/moves back to the first local that is not a single-def copy"""
    cur = l
    for _ in range(depth):
        if cur is None:
            return None
        d = single_def(defs, cur)
        if d is None or d[1] == "term" or d[2].get("k") != "use":
            return cur
        nxt = op_local(d[2]["op"])
        if nxt is None:
            return cur
        cur = nxt
    return cur
