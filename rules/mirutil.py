"""A7 helpers on one MIR body: dominators, reachability, single-definition chains, call lookup."""
import re


def noncleanup_blocks(b):
    return [i for i, bl in enumerate(b.blocks) if not bl["cleanup"]]


def dominators(b):
    """idom-free simple iterative dominator sets (bodies are small)"""
    blocks = noncleanup_blocks(b)
    preds = b.compute_preds()
    allb = set(blocks)
    dom = {i: set(allb) for i in blocks}
    dom[0] = {0}
    changed = True
    while changed:
        changed = False
        for i in blocks:
            if i == 0:
                continue
            ps = [p for p in preds[i] if p in dom]
            if not ps:
                new = {i}
            else:
                new = set.intersection(*[dom[p] for p in ps]) | {i}
            if new != dom[i]:
                dom[i] = new
                changed = True
    return dom


def reachable_from(b, start, avoid=()):
    seen = set()
    stack = [start]
    while stack:
        x = stack.pop()
        if x in seen or x in avoid:
            continue
        seen.add(x)
        for s in b.successors(x):
            stack.append(s)
    return seen


def defs_of(b):
    """local -> list of (block, stmt index or 'term', rvalue-or-terminator)"""
    out = {}
    for bi, bl in enumerate(b.blocks):
        if bl["cleanup"]:
            continue
        for si, s in enumerate(bl["stmts"]):
            if s["s"] == "assign" and not s["pl"]["p"]:
                out.setdefault(s["pl"]["l"], []).append((bi, si, s["rv"]))
        t = bl["term"]
        if t["t"] == "call" and not t["dest"]["p"]:
            out.setdefault(t["dest"]["l"], []).append((bi, "term", t))
    return out


def single_def(defs, l):
    d = defs.get(l, [])
    return d[0] if len(d) == 1 else None


def op_local(op):
    """local of a bare-local operand, else None"""
    if op and op.get("o") in ("copy", "move") and not op["pl"]["p"]:
        return op["pl"]["l"]
    return None


def calls(b, pattern):
    rx = re.compile(pattern)
    out = []
    for bi, bl in enumerate(b.blocks):
        if bl["cleanup"]:
            continue
        t = bl["term"]
        if t["t"] == "call" and t["callee"] and (rx.search(t["callee"]["def"]) or rx.search(t["callee"]["orig"])):
            out.append((bi, t))
    return out


def trace_back(b, defs, l, depth=12):
    """follow a chain of single definitions through moves / reborrows / derefs; yields the steps"""
    steps = []
    cur = l
    for _ in range(depth):
        d = single_def(defs, cur)
        if d is None:
            break
        bi, si, x = d
        steps.append((cur, bi, si, x))
        if si == "term":
            break
        k = x["k"]
        if k == "use":
            nxt = op_local(x["op"])
        elif k == "ref":
            nxt = x["pl"]["l"]
        elif k == "cast":
            nxt = op_local(x["op"])
        else:
            nxt = None
        if nxt is None:
            break
        cur = nxt
    return steps


def const_variant(op):
    """(adt short name, variant) when the operand is a fieldless enum constant exported as int"""
    return None


def aggregates(b, adt_suffix=None, variant=None):
    out = []
    for bi, bl in enumerate(b.blocks):
        if bl["cleanup"]:
            continue
        for si, s in enumerate(bl["stmts"]):
            if s["s"] == "assign" and s["rv"]["k"] == "agg" and s["rv"]["ak"] == "adt":
                rv = s["rv"]
                if adt_suffix and not rv["adt"].endswith(adt_suffix):
                    continue
                if variant and rv["vn"] != variant:
                    continue
                out.append((bi, si, s))
    return out


def origin_local(b, defs, l, depth=10):
    """follow plain copies/moves back to the first local that is not a single-def copy"""
    cur = l
    for _ in range(depth):
        if cur is None:
            return None
        d = single_def(defs, cur)
        if d is None or d[1] == "term" or d[2].get("k") != "use":
            return cur
        nxt = op_local(d[2]["op"])
        if nxt is None:
            return cur
        cur = nxt
    return cur


def closures_of(prog, b):
    """closures that belong to body b: defined under it, or constructed in its blocks (a helper that has been inlined into b
    brings its closures along), transitively"""
    out = {c.id: c for c in prog.bodies.values() if c.kind == "Closure" and c.root == b.id}
    work = [b] + list(out.values())
    seen = set()
    while work:
        x = work.pop()
        if x.id in seen:
            continue
        seen.add(x.id)
        for bl in x.blocks:
            # fn items of the workspace passed as values (`.map(helper)`, `.position(is_opt)`): they play the part of a closure
            t0 = bl["term"]
            if t0["t"] == "call":
                for a in t0["args"]:
                    if a.get("o") == "const" and a["k"].get("c") == "fn" and isinstance(a["k"].get("callee"), dict):
                        c = prog.bodies.get(a["k"]["callee"].get("id"))
                        if c is not None and c.id not in out and c.crate == b.crate:
                            out[c.id] = c
                            work.append(c)
            for s in bl["stmts"]:
                if s["s"] == "assign" and s["rv"]["k"] == "agg" and s["rv"].get("ak") in ("closure", "coroutine"):
                    c = prog.bodies.get(s["rv"].get("def"))
                    if c is not None and c.id not in out:
                        out[c.id] = c
                        work.append(c)
                        # closures nested inside it
                        for c2 in prog.bodies.values():
                            if c2.kind == "Closure" and c2.id.startswith(c.id + "::") and c2.id not in out:
                                out[c2.id] = c2
                                work.append(c2)
    return sorted(out.values(), key=lambda c: c.id)


def _proj_path(p):
    """projection list -> comparable path ('d' derefs dropped)"""
    out = []
    for e in p:
        if e == "d":
            continue
        if isinstance(e, dict) and "f" in e:
            out.append(("f", e["f"]))
        elif isinstance(e, dict) and "dc" in e:
            out.append(("v", e.get("n") if e.get("n") is not None else e["dc"]))
        else:
            out.append(("?", repr(e)))
    return tuple(out)


def flow_forward(b, start_local, max_iter=12, start_path=()):
    """field-sensitive, flow-insensitive forward reach of the value first held by `start_local`:
    returns the set of (local, path) locations that (may) hold exactly that value after moves / copies, struct / tuple / enum
    aggregates that wrap it, reads of the wrapping field, and Try::branch (Ok / Some payload -> Continue payload)."""
    tracked = {(start_local, tuple(start_path))}
    for _ in range(max_iter):
        new = set()
        for bl in b.blocks:
            if bl["cleanup"]:
                continue
            for s in bl["stmts"]:
                if s["s"] != "assign":
                    continue
                rv = s["rv"]
                dl, dp = s["pl"]["l"], _proj_path(s["pl"]["p"])
                if rv["k"] in ("use", "cast") and rv["op"].get("o") in ("copy", "move"):
                    sl, sp = rv["op"]["pl"]["l"], _proj_path(rv["op"]["pl"]["p"])
                    for (tl, tp) in tracked:
                        if tl != sl:
                            continue
                        if tp[:len(sp)] == sp:                    # reading a prefix of / exactly the tracked location
                            new.add((dl, dp + tp[len(sp):]))
                elif rv["k"] == "agg" and rv.get("ak") in ("adt", "tuple"):
                    for k, op in enumerate(rv["ops"]):
                        if op.get("o") not in ("copy", "move"):
                            continue
                        sl, sp = op["pl"]["l"], _proj_path(op["pl"]["p"])
                        for (tl, tp) in tracked:
                            if tl == sl and tp[:len(sp)] == sp:
                                pre = ()
                                if rv.get("ak") == "adt" and rv.get("vn") and rv.get("adt", "").split("::")[-1] in ("Result", "Option", "ControlFlow"):
                                    pre = (("v", rv["vn"]),)
                                new.add((dl, dp + pre + (("f", k),) + tp[len(sp):]))
            t = bl["term"]
            if t["t"] == "call" and t.get("callee") and t["callee"]["def"].endswith("::Try>::branch") and t["args"] and \
                    t["args"][0].get("o") in ("copy", "move"):
                sl, sp = t["args"][0]["pl"]["l"], _proj_path(t["args"][0]["pl"]["p"])
                dl, dp = t["dest"]["l"], _proj_path(t["dest"]["p"])
                for (tl, tp) in tracked:
                    if tl == sl and tp[:len(sp)] == sp:
                        rest = tp[len(sp):]
                        if rest and rest[0] in (("v", "Ok"), ("v", "Some")):
                            new.add((dl, dp + (("v", "Continue"),) + rest[1:]))
        if new <= tracked:
            break
        tracked |= new
    return tracked


def canon_base(b, defs, pl, depth=8):
    """the local a place ultimately designates when it is (a chain of) `*r` with r = &x / &mut x / a copy of such a reference;
    None when the place has other projections"""
    cur = pl
    for _ in range(depth):
        proj = [p for p in cur["p"]]
        if not proj:
            return cur["l"]
        if proj != ["d"]:
            return None
        d = single_def(defs, cur["l"])
        if d is None or d[1] == "term":
            return None
        rv = d[2]
        if rv.get("k") == "ref":
            cur = rv["pl"]
        elif rv.get("k") in ("use", "cast") and rv["op"].get("o") in ("copy", "move"):
            cur = {"l": rv["op"]["pl"]["l"], "p": rv["op"]["pl"]["p"] + ["d"]} if not rv["op"]["pl"]["p"] else None
            if cur is None:
                return None
        else:
            return None
    return None


def resolve_loc(b, defs, pl, depth=10):
    """(base local, tuple of field indices) a place designates, with leading derefs of references (`(*_p).f`, _p = &mut _s or a
    copy of such a reference) resolved to the referent; None when the place involves indexing / downcasts"""
    base, proj = pl["l"], list(pl["p"])
    for _ in range(depth):
        if proj and proj[0] == "d":
            d = single_def(defs, base)
            if d is None or d[1] == "term":
                return None
            rv = d[2]
            if rv.get("k") == "ref":
                base, proj = rv["pl"]["l"], list(rv["pl"]["p"]) + proj[1:]
                continue
            if rv.get("k") in ("use", "cast") and rv["op"].get("o") in ("copy", "move"):
                base, proj = rv["op"]["pl"]["l"], list(rv["op"]["pl"]["p"]) + proj
                continue
            return None
        break
    path = []
    for e in proj:
        if isinstance(e, dict) and "f" in e:
            path.append(e["f"])
        else:
            return None
    if path:
        # a struct moved as a whole (`_b = move _a`, e.g. into a by-value `self` parameter) keeps its identity
        base = origin_local(b, defs, base)
    return base, tuple(path)


def ref_root(b, defs, l, depth=16):
    """the local a reference-valued local ultimately comes from: a parameter that is itself the reference (reborrows `&mut *p`,
    copies and moves followed), also when the reference travelled through a field of a locally built aggregate (a closure's
    captured variable, a tuple, a small struct: `(*env).0` with env = &mut <closure [move r]>).  For `&x` of a plain local x the
    answer is x.  None when the chain cannot be followed."""
    def agg_field(x, f, d):
        # the operand stored in field f of the aggregate local x was built from (moves of the whole value followed)
        for _ in range(8):
            dd = single_def(defs, x)
            if dd is None or dd[1] == "term":
                return None
            rv = dd[2]
            if rv.get("k") == "agg":
                ops = rv.get("ops", [])
                if f < len(ops) and ops[f].get("o") in ("copy", "move") and not ops[f]["pl"]["p"]:
                    return root(ops[f]["pl"]["l"], d - 1)
                return None
            if rv.get("k") == "use" and rv["op"].get("o") in ("copy", "move") and not rv["op"]["pl"]["p"]:
                x = rv["op"]["pl"]["l"]
                continue
            return None
        return None

    def place(pl, d, as_value):
        proj = list(pl["p"])
        if not proj:
            return root(pl["l"], d - 1) if as_value else pl["l"]
        if proj[0] == "d":
            tgt = root(pl["l"], d - 1)
            if tgt is None:
                return None
            rest = proj[1:]
            if not rest:
                return tgt
            if as_value and len(rest) == 1 and isinstance(rest[0], dict) and "f" in rest[0]:
                r = agg_field(tgt, rest[0]["f"], d)
                if r is not None:
                    return r
            return tgt if not as_value else None
        if isinstance(proj[0], dict) and "f" in proj[0]:
            if as_value and len(proj) == 1:
                r = agg_field(pl["l"], proj[0]["f"], d)
                if r is not None:
                    return r
            return pl["l"] if not as_value else None
        return None

    def root(x, d):
        if d <= 0:
            return None
        dd = single_def(defs, x)
        if dd is None:
            return x
        if dd[1] == "term":
            return None
        rv = dd[2]
        k = rv.get("k")
        if k == "ref":
            return place(rv["pl"], d, False)
        if k in ("use", "cast") and rv["op"].get("o") in ("copy", "move"):
            return place(rv["op"]["pl"], d, True)
        return x
    return root(l, depth)
