"""Hooks that let the table evaluator (A8) evaluate header / peek functions on a concrete 12-byte header:
models of the std / bitflags functions those bodies call (slice indexing, try_into, from_be_bytes, bitflags)."""
from tables import EnumVal, Opaque


class Header12:
    def __init__(self, words, flag_mask, length=12):
        self.words = words          # {(lo, hi): value}
        self.flag_mask = flag_mask
        self.length = length
        self.reads = []

    def hooks(self):
        h = {}

        def rng(v):
            if isinstance(v, EnumVal) and v.adt in ("Range",):
                return (v.f[0], v.f[1])
            if isinstance(v, EnumVal) and v.adt == "RangeTo":
                return (0, v.f[0])
            return None

        def index(vals):
            r = rng(vals[1])
            return ("slice", r) if r else Opaque("index")

        def get(vals):
            r = rng(vals[1])
            if r is None:
                return Opaque("get")
            if r[1] > self.length:
                return EnumVal("Option", "None")
            return EnumVal("Option", "Some", [("slice", r)])

        def ok_or(vals):
            v = vals[0]
            if isinstance(v, EnumVal) and v.v == "Some":
                return EnumVal("Result", "Ok", [v.f[0]])
            return EnumVal("Result", "Err", [vals[1]])

        def try_into(vals):
            return EnumVal("Result", "Ok", [vals[0]])

        def from_be(vals):
            v = vals[0]
            if isinstance(v, tuple) and v and v[0] == "slice":
                self.reads.append(v[1])
                return self.words.get(v[1], Opaque(("bytes", v[1])))
            if isinstance(v, tuple) and v and v[0] == "arrayvals" and v[1] and \
                    all(isinstance(x, tuple) and x and x[0] == "byte" for x in v[1]):
                # `from_be_bytes([data[a], data[a + 1]])`: consecutive single-byte reads are one big-endian read
                pos = [x[1] for x in v[1]]
                if pos == list(range(pos[0], pos[0] + len(pos))):
                    rng0 = (pos[0], pos[0] + len(pos))
                    self.reads.append(rng0)
                    return self.words.get(rng0, Opaque(("bytes", rng0)))
            return Opaque("from_be_bytes")

        def index_byte(base, ix):
            if ix >= self.length:
                return Opaque("index out of the buffer")
            return ("byte", ix, None)
        h[("index_byte",)] = index_byte

        h[("call", "core::slice::index::<impl std::ops::Index<I> for [T]>::index")] = index
        h[("call", "core::slice::<impl [T]>::get")] = get
        h[("call", "std::option::Option::<T>::ok_or")] = ok_or
        h[("call", "<T as std::convert::TryInto<U>>::try_into")] = try_into
        h[("call", "std::array::<impl std::convert::TryFrom<&[T]> for [T; N]>::try_from")] = try_into
        h[("call", "std::array::<impl std::convert::TryFrom<&'a [T]> for [T; N]>::try_from")] = try_into
        h[("call", "core::num::<impl u16>::from_be_bytes")] = from_be
        h[("call", "core::slice::<impl [T]>::len")] = lambda vals: self.length
        # bitflags (trusted library): a PacketFlag is its u16 bits
        m = self.flag_mask
        for pref in ("simple_dns::dns::_::<impl dns::PacketFlag>::", "simple_dns::dns::_::<impl simple_dns::PacketFlag>::",
                     "simple_dns::PacketFlag::"):
            h[("call", pref + "from_bits_truncate")] = lambda vals: (vals[0] & m) if isinstance(vals[0], int) else Opaque("from_bits_truncate of a non-integer")
            h[("call", pref + "bits")] = lambda vals: vals[0]
            h[("call", pref + "contains")] = lambda vals: int((vals[0] & vals[1]) == vals[1]) if isinstance(vals[0], int) and isinstance(vals[1], int) else Opaque("contains on non-integers")
            h[("call", pref + "empty")] = lambda vals: 0
        return h
