"""C11 Received packets survive re-serialisation (writer total, length-consistent and code-preserving on the reader's image)."""
from common import Report, Violation, where_of
import tables
from tables import Evaluator, EnumVal, Opaque, NotATable
import mirutil as mu


def viol(report, rule, what, kind, msg, where="-"):
    report.violate(Violation(report.key(what, rule, kind, ""), where, rule, "%s: %s" % (rule, msg)))


def run(ctx):
    prog = ctx.prog
    report = Report("C11", ctx, "R1 for the code-carrying enums with a many-to-one reader (OPCODE, RCODE) every value in the reader's "
                    "image is written back to bits that read as the same value (tables evaluated exhaustively); R2 the TYPE written "
                    "for whatever the parse dispatch builds is the parsed TYPE, for all 65536 codes; R3 len() equals the bytes "
                    "write_to emits (shared with C04-R1); R4 no writer constructs an error on values the parser can produce; R5 class word; "
                    "R6 the parser lifts the OPT record from the end of the additional section at which the writers put it.")
    B = {}
    for name, q in [("opcode_from", "simple_dns::<OPCODE as From<u16>>::from"), ("rcode_from", "simple_dns::<RCODE as From<u16>>::from"),
                    ("get_flags", "simple_dns::Header::get_flags"), ("encode", "simple_dns::OPT::encode_ttl"),
                    ("extract", "simple_dns::OPT::extract_rcode_from_ttl"),
                    ("type_from", "simple_dns::<TYPE as From<u16>>::from"), ("type_to", "simple_dns::<u16 as From<TYPE>>::from"),
                    ("type_code", "simple_dns::RData::type_code"), ("parse_rdata", "simple_dns::dns::rdata::parse_rdata")]:
        B[name] = ctx.must_find(report, q)
    if any(v is None for v in B.values()):
        return report.finish()
    from hdrmodel import Header12
    ev = Evaluator(prog, Header12({}, 0x87B0).hooks())
    try:
        # ---- R1 without EDNS: header nibble only
        badn = {}
        for n in range(16):
            r = ev.call(B["rcode_from"], [n])
            hdr = {"z_flags": 0, "opcode": EnumVal("OPCODE", "StandardQuery"), "response_code": r}
            w = ev.call(B["get_flags"], [hdr])
            back = ev.call(B["rcode_from"], [w & 0xF]) if isinstance(w, int) else w
            report.count()
            report.nontriv("rcode nibble %d" % n)
            if back != r:
                badn.setdefault((repr(r), (w & 0xF) if isinstance(w, int) else repr(w), repr(back)), []).append(n)
            o = ev.call(B["opcode_from"], [n])
            hdr = {"z_flags": 0, "opcode": o, "response_code": EnumVal("RCODE", "NoError")}
            w = ev.call(B["get_flags"], [hdr])
            back = ev.call(B["opcode_from"], [(w >> 11) & 0xF]) if isinstance(w, int) else w
            report.count()
            report.nontriv("opcode %d" % n)
            if back != o:
                viol(report, "C11-R1", "OPCODE", "opcode %d" % n,
                     "a message received with OPCODE %d parses as %r, is written as %s and re-parses as %r" % (n, o, w, back))
        for (r, wv, back), ns in sorted(badn.items()):
            viol(report, "C11-R1", "RCODE", "%s->%s" % (r, back),
                 "a message received without EDNS and with RCODE %s parses as %s, which is written back as RCODE %s and re-parses "
                 "as %s" % (_ranges(ns), r, wv, back))
        # ---- R1 with EDNS: 12-bit codes (extended rcode in the OPT TTL)
        bad12 = {}
        badv = {}
        for code in range(4096):
            low = code & 0xF
            hdr_in = {"response_code": ev.call(B["rcode_from"], [low])}
            r = ev.call(B["extract"], [((code >> 4) << 24), hdr_in])
            hdr = {"z_flags": 0, "opcode": EnumVal("OPCODE", "StandardQuery"), "response_code": r}
            w = ev.call(B["get_flags"], [hdr])
            ttl = ev.call(B["encode"], [{"version": 0}, hdr])
            report.count()
            if not isinstance(w, int) or not isinstance(ttl, int):
                viol(report, "C11-R1", "RCODE+OPT", "not evaluable", "12-bit response code %d: writer not evaluable (%r, %r)" % (code, w, ttl))
                break
            hdr2 = {"response_code": ev.call(B["rcode_from"], [w & 0xF])}
            back = ev.call(B["extract"], [ttl, hdr2])
            if back != r:
                bad12.setdefault((repr(r), repr(back)), []).append(code)
            # the rest of the OPT TTL (version, DO bit / flags) was received as zero here and must be written back as zero
            if ttl & 0x00FFFFFF:
                badv.setdefault(ttl & 0x00FFFFFF, []).append(code)
        report.nontriv("12-bit rcodes")
        for (r, back), codes in sorted(bad12.items()):
            viol(report, "C11-R1", "RCODE+OPT", "%s->%s" % (r, back),
                 "with EDNS, response codes %s parse as %s but are re-serialised to bits that parse as %s" % (
                     _ranges(codes), r, back))
        for bits, codes in sorted(badv.items())[:3]:
            viol(report, "C11-R1", "RCODE+OPT", "version-bits %#x" % bits,
                 "with EDNS version 0 and no flags, response codes %s are re-serialised with OPT TTL bits %#010x set outside the extended-rcode "
                 "byte: the EDNS version / flags of the received message are altered" % (_ranges(codes), bits))
        report.sample({"table": "RCODE::from o get_flags", "domain": "16 nibbles + 4096 extended codes",
                       "example": "rcode 5 -> Refused -> 5 -> Refused"})
        # ---- R2: TYPE preserved through dispatch + type_code + u16::from, all codes
        leaves = tables.table_of(prog, B["parse_rdata"])
        tadt = prog.adts["simple_dns::dns::rdata::TYPE"]
        tvariants = [v["name"] for v in tadt["variants"]]
        arms = {}
        for conds, res in leaves:
            if res[0] == "variant" and res[2] == "Ok" and res[3][0][0] == "variant":
                for cnd in conds:
                    if cnd[0] == "eq" and cnd[1][0] == "discr" and cnd[1][1][0] != "call":   # (the TYPE matched on, not the outcome of a nested parse)
                        arms[tvariants[cnd[2]]] = res[3][0]
        badc = []
        for c in range(65536):
            t = ev.call(B["type_from"], [c])
            inner = arms.get(t.v) if isinstance(t, EnumVal) else None
            if inner is None:
                badc.append("code %d: no parse arm for %r" % (c, t))
                break
            f = [Opaque("payload") if x[0] == "okpayload" else ev.term(x, [Opaque("d"), Opaque("p"), t]) for x in inner[3]]
            rd = EnumVal("RData", inner[2], f)
            back = ev.call(B["type_to"], [ev.call(B["type_code"], [rd])])
            # zero-length RDATA is kept as Empty(type)
            back2 = ev.call(B["type_to"], [ev.call(B["type_code"], [EnumVal("RData", "Empty", [t])])])
            if back != c or back2 != c:
                badc.append("a record received with TYPE %d is re-serialised with TYPE %r (Empty: %r)" % (c, back, back2))
                if len(badc) > 5:
                    break
        report.count(65536)
        report.nontriv("type round trip")
        for m in badc[:6]:
            viol(report, "C11-R2", "TYPE", m[:40], m)
    except NotATable as e:
        viol(report, "C11-R1", "tables", "not a table", "a conversion is no longer a loop-free decision table: %s" % e)
    # ---- R4: writers construct no error of their own (LOC's version check mirrors the parser's)
    n_w = 0
    writers = []
    for b in sorted(prog.bodies.values(), key=lambda x: x.qname):
        if b.crate != "simple_dns" or b.kind in ("Closure", "Promoted"):
            continue
        is_writer = (b.impl and (b.impl["trait"] or "").endswith("wire_format::WireFormat") and b.name in ("write_to", "write_compressed_to")) \
            or b.name in ("plain_append", "compress_append", "write_common", "write_header") \
            or b.qname in ("simple_dns::Header::write_to", "simple_dns::Packet::write_to", "simple_dns::Packet::write_compressed_to")
        if not is_writer:
            continue
        writers.append(b)
    # the writers and every crate function they reach (helpers such as a length check called from a writer)
    reach = ctx.cg.reachable([b.id for b in writers])
    scan = []
    for bid in sorted(reach):
        b = prog.bodies[bid]
        if b.crate != "simple_dns" or b.kind == "Promoted":
            continue
        if b.impl and (b.impl.get("trait_full") or "").startswith("std::convert::From<std::io::Error>") and "SimpleDnsError" in (b.impl.get("self_s") or ""):
            continue        # conversion of an I/O error reported by the caller's writer
        scan.append(b)
    report.extra["writer_functions"] = len(writers)
    report.extra["functions_reached_from_writers"] = len(scan)
    for b in scan:
        n_w += 1 if b in writers else 0
        report.count()
        errs = [(bi, si, s) for bi, si, s in mu.aggregates(b, "simple_dns_error::SimpleDnsError")]
        for bi, si, s in errs:
            if b.qname == "simple_dns::<LOC as WireFormat>::write_to" and s["rv"]["vn"] == "InvalidDnsPacket":
                # accepted iff LOC::parse rejects a non-zero version as well
                lp = prog.find("simple_dns::<LOC as WireFormat>::parse")
                ok = lp is not None and any(x[2]["rv"]["vn"] == "InvalidDnsPacket" for x in mu.aggregates(lp, "simple_dns_error::SimpleDnsError"))
                report.nontriv("LOC version mirror")
                if ok:
                    continue
            viol(report, "C11-R4", b.qname, "constructs-error",
                 "%s (reached from %s) constructs SimpleDnsError::%s itself: serialising a parsed value can fail" % (
                     b.qname, "a writer" if b not in writers else "the writers", s["rv"]["vn"]),
                 where_of(b, s["sp"]))
    # ---- R5: the unicast-response / cache-flush bit and the class survive re-serialisation for every class value
    import c02
    c02.class_word_rule(ctx, report, "C11-R5")
    # ---- R6: the parser lifts out the OPT record the writers put at the same end of the additional section: the writers
    # emit header.opt_rr() before (after) the additional records, so the first (last) OPT record of a received message is the
    # one that comes back in that place; with the other end, a message carrying two OPT records swaps them on every pass
    import audits
    import c04
    pp = prog.find("simple_dns::Packet::parse")
    report.count()
    if pp is None:
        report.lost_anchor("simple_dns::Packet::parse")
    else:
        info, why = audits.find_lift(ctx, pp)
        sides = {}
        for q in ("simple_dns::Packet::write_to", "simple_dns::Packet::write_compressed_to"):
            wb = prog.find(q)
            if wb is None:
                report.lost_anchor(q)
                continue
            order = c04.packet_emission_order(ctx, wb)
            opt_ix = [i for i, (fn, ty, s) in enumerate(order) if ty == "ResourceRecord" and s is None]
            add_ix = [i for i, (fn, ty, s) in enumerate(order) if s and s.split(".")[-1] == "additional_records"]
            if len(opt_ix) == 1 and len(add_ix) == 1:
                sides[q] = opt_ix[0] < add_ix[0]
        if info is None or len(sides) != 2:
            viol(report, "C11-R6", "Packet::parse", "opt-lift", "cannot relate the OPT record the parser lifts out to where the writers put it (%s)" % (
                why or "OPT / additional_records not located in the writers"))
        else:
            for q, before in sorted(sides.items()):
                if before != info["first"]:
                    viol(report, "C11-R6", "Packet::parse", "opt-lift-end:" + q.split("::")[-1],
                         "Packet::parse lifts out the %s OPT record of the additional section but %s writes header.opt_rr() %s the "
                         "additional records: a received message with two OPT records comes back with them swapped" % (
                             "first" if info["first"] else "last", q, "before" if before else "after"))
                else:
                    report.nontriv("opt lift end:" + q.split("::")[-1])
            report.sample({"rule": "R6", "parser lifts": "first" if info["first"] else "last", "writers put OPT before additional": sides})
    report.floor("writer functions scanned", n_w, 75)
    report.assumptions += ["field-value equality across parse(write(parse(x))) is not decided (value-level)",
                           "RCODE / OPCODE discriminants as exported by the compiler"]
    return report.finish()


def _ranges(xs):
    xs = sorted(xs)
    out = []
    s = p = xs[0]
    for x in xs[1:]:
        if x == p + 1:
            p = x
            continue
        out.append((s, p))
        s = p = x
    out.append((s, p))
    txt = ", ".join("%d" % a if a == b else "%d-%d" % (a, b) for a, b in out[:6])
    return txt + (" ..." if len(out) > 6 else "")
