"""C14 No datagram can crash or wedge the mDNS services (panic and termination clauses)."""
import re
from common import Report, Violation, where_of
import panicrule

ROOT_PATTERNS = [
    r"^simple_mdns::\[(sync|async)_discovery\]::SimpleMdnsResponder::responder_loop(::\{closure#0\})?$",
    r"^simple_mdns::ServiceDiscovery::receive_packets_loop::\{closure#0\}$",
    r"^simple_mdns::ServiceDiscoveryExecutor::execution_loop(::\{closure#0\})?$",
    r"^simple_mdns::ServiceDiscoveryExecutor::process_packet(::\{closure#0\})?$",
    r"^simple_mdns::\[(sync|async)_discovery\]::OneShotMdnsResolver::get_next_response(::\{closure#0\})?$",
    r"^simple_mdns::\[(sync|async)_discovery\]::OneShotMdnsResolver::query_(packet|service_address|service_address_and_port)(::\{closure#0\})?$",
    r"^simple_mdns::(sync|async)_discovery::service_discovery::add_response_to_resources(::\{closure#0\})?$",
    r"^simple_mdns::build_reply$",
]


def roots(ctx, report):
    rs = []
    for b in ctx.prog.bodies.values():
        if b.crate == "simple_mdns" and any(re.match(p, b.qname) for p in ROOT_PATTERNS):
            rs.append(b)
    report.floor("datagram-handling entry points (both back-ends)", len(rs), 18)
    return sorted(rs, key=lambda b: b.qname)


def run(ctx):
    report = Report("C14", ctx, "R1: no undischarged panic site reachable from the receive loops of the responder, the "
                    "service-discovery listener and the one-shot resolver (sync and async back-ends), across the crate "
                    "boundary into simple_dns; R2: no open site is reachable while a RwLock guard is alive, which is what "
                    "discharges the LockResult::unwrap sites; R5: every loop reached while handling one datagram (the receive / wait loops themselves excepted) has a progress measure; R4: no Display/Debug impl reached from there constructs fmt::Error; R3: buffer slicing by the received count uses the recv_from "
                    "post-condition.")
    rs = roots(ctx, report)
    reach = panicrule.check_panics(ctx, report, rs, "C14-R1", "C14", skip_kinds=("call:alloc",), lock_rule=True)
    # R2: LockResult::unwrap panics only on a poisoned lock; a lock is poisoned only if some thread panicked while
    # holding the guard.  Every function that can run under a guard is in `reach`, so if R1 left no open site the
    # locks cannot be poisoned by datagram handling.
    locks = report.extra.get("lock_unwraps", [])
    open_sites = [v for v in report.violations if v.rule == "C14-R1"] + [v for v, _ in report.known_hits]
    if open_sites:
        for k in locks:
            report.violate(Violation(k, "-", "C14-R2", "C14-R2: LockResult::unwrap can panic (poisoned lock) because %d panic "
                                     "site(s) remain reachable from code that runs while the store is locked" % len(open_sites)))
    else:
        report.discharged += len(locks)
        for k in locks:
            report.nontriv("lock:" + k)
    # R4: to_string() / format!() of received names runs Display impls; one that builds its own fmt::Error makes
    # ToString::to_string panic (std: "a Display implementation returned an error unexpectedly")
    import c12
    fmt_roots = [bid for bid in reach if ctx.prog.bodies[bid].impl and
                 ctx.prog.bodies[bid].impl["trait"] in ("std::fmt::Debug", "std::fmt::Display") and ctx.prog.bodies[bid].name == "fmt"]
    freach = ctx.cg.reachable(fmt_roots)
    n_err = c12.fmt_err_rule(ctx, report, freach, "C14-R4")
    report.floor("Display/Debug impls run by datagram handling", len(fmt_roots), 2)
    report.extra["display_impls_reached"] = sorted(ctx.prog.bodies[x].qname for x in fmt_roots)
    if not n_err:
        report.nontriv("no fmt::Error constructed")
    # R5 (wedge): below the receive / wait loops themselves - which are meant to run for as long as the service lives or the
    # caller's timeout allows - every loop reached while handling one datagram has a progress measure
    import loops
    WAIT_LOOPS = re.compile(r"::(responder_loop|receive_packets_loop|execution_loop|get_next_response|query_packet|query_service_address|"
                            r"query_service_address_and_port|refresh_known_instances)(::\{closure#\d+\})*$")
    from common import load_tsv
    assumed_finite = {r[0]: r[1] for r in load_tsv("assumed_loops.tsv")}

    def is_coroutine(bb):
        # the state machine of an async fn: its cycles are resume edges, not loops of the source (its source loops are the
        # wait loops excluded above; the synchronous functions it calls are analysed on their own)
        return bb.kind == "Closure" and bb.argc >= 1 and ("{async" in bb.local_ty(1)["s"] or "Pin<&mut" in bb.local_ty(1)["s"])
    handled = {bid: reach[bid] for bid in reach if not WAIT_LOOPS.search(ctx.prog.bodies[bid].qname)
               and not is_coroutine(ctx.prog.bodies[bid]) and ctx.prog.bodies[bid].qname not in assumed_finite}
    report.extra["loops_assumed_finite"] = [{"fn": k, "reason": v} for k, v in sorted(assumed_finite.items())]
    n_loops = loops.check_loops(ctx, report, handled, "C14-R5")
    report.floor("loops reached while handling a datagram", n_loops, 10)
    report.floor("LockResult::unwrap sites in datagram handling", len(locks), 3)
    report.assumptions += ["A-OVF", "allocation failure out of scope",
                           "locks are only poisoned by panics in the analysed code (application callbacks are channel sends)",
                           "tokio / std I/O and synchronisation primitives are total (return errors)"]
    return report.finish()
