"""Linear forms, intervals and bounded syntactic entailment (A3 core; no solver)."""

INF = 1 << 70


class Lin:
    __slots__ = ("t", "c", "_h")

    def __init__(self, terms=None, c=0):
        if terms:
            self.t = tuple(sorted((s, k) for s, k in terms.items() if k != 0))
        else:
            self.t = ()
        self.c = c
        self._h = hash((self.t, self.c))

    @staticmethod
    def const(c):
        return Lin(None, c)

    @staticmethod
    def sym(s):
        return Lin({s: 1}, 0)

    def is_const(self):
        return not self.t

    def d(self):
        return dict(self.t)

    def __add__(self, o):
        if isinstance(o, int):
            return Lin(self.d(), self.c + o)
        d = self.d()
        for s, k in o.t:
            d[s] = d.get(s, 0) + k
        return Lin(d, self.c + o.c)

    def __sub__(self, o):
        if isinstance(o, int):
            return Lin(self.d(), self.c - o)
        d = self.d()
        for s, k in o.t:
            d[s] = d.get(s, 0) - k
        return Lin(d, self.c - o.c)

    def scale(self, k):
        return Lin({s: v * k for s, v in self.t}, self.c * k)

    def __eq__(self, o):
        return isinstance(o, Lin) and self.t == o.t and self.c == o.c

    def __hash__(self):
        return self._h

    def syms(self):
        return [s for s, _ in self.t]

    def __repr__(self):
        parts = []
        for s, k in self.t:
            if k == 1:
                parts.append("%s" % s)
            elif k == -1:
                parts.append("-%s" % s)
            else:
                parts.append("%d*%s" % (k, s))
        if self.c or not parts:
            parts.append(str(self.c))
        return " + ".join(parts).replace("+ -", "- ")


def ub(e, iv):
    """upper bound of e by interval evaluation; iv: sym -> (lo, hi)"""
    r = e.c
    for s, k in e.t:
        lo, hi = iv.get(s, (-INF, INF))
        if k > 0:
            if hi >= INF:
                return INF
            r += k * hi
        else:
            if lo <= -INF:
                return INF
            r += k * lo
    return r


def lb(e, iv):
    return -ub(e.scale(-1), iv)


def _diff_form(e):
    """(x, y, c) for e = x - y + c ; x or y may be None (zero node).  None when e is not a difference form."""
    if len(e.t) == 1:
        s, k = e.t[0]
        if k == 1:
            return (s, None, e.c)
        if k == -1:
            return (None, s, e.c)
        return None
    if len(e.t) == 2:
        (s1, k1), (s2, k2) = e.t
        if k1 == 1 and k2 == -1:
            return (s1, s2, e.c)
        if k1 == -1 and k2 == 1:
            return (s2, s1, e.c)
    return None


def entails_diff(facts, iv, e):
    """complete decision for difference constraints (shortest paths); chains of any length"""
    g = _diff_form(e)
    if g is None:
        return False
    x, y, c = g          # goal: x - y <= -c
    edges = {}
    syms = set()

    def add(a, b, w):    # a - b <= w  : edge b -> a
        k = (b, a)
        if k not in edges or edges[k] > w:
            edges[k] = w
    for f in facts:
        d = _diff_form(f)
        if d is None:
            continue
        a, b, cc = d
        add(a, b, -cc)
        syms.add(a)
        syms.add(b)
    syms.add(x)
    syms.add(y)
    for s in syms:
        if s is None:
            continue
        lo, hi = iv.get(s, (-INF, INF))
        if hi < INF:
            add(s, None, hi)
        if lo > -INF:
            add(None, s, -lo)
    # Bellman-Ford from y
    dist = {y: 0}
    nodes = list(syms | {None})
    for _ in range(len(nodes)):
        changed = False
        for (b, a), w in edges.items():
            if b in dist and (a not in dist or dist[a] > dist[b] + w):
                dist[a] = dist[b] + w
                changed = True
        if not changed:
            break
    return x in dist and dist[x] <= -c


def entails(facts, iv, e, depth=3, trace=None):
    if _entails(facts, iv, e, depth, trace):
        return True
    return entails_diff(facts, iv, e)


def _entails(facts, iv, e, depth=3, trace=None):
    """facts: iterable of Lin f meaning f <= 0.  Decide facts |- e <= 0 by interval evaluation
    of e minus a non-negative combination of at most `depth` facts chosen to cancel symbols."""
    if ub(e, iv) <= 0:
        return True
    if depth == 0:
        return False
    pos = {s: k for s, k in e.t}
    for f in facts:
        # choose multiplier cancelling a symbol: need coef_e(s) and coef_f(s) same sign
        tried = set()
        for s, kf in f.t:
            ke = pos.get(s)
            if ke is None or (ke > 0) != (kf > 0):
                continue
            if ke % kf != 0:
                continue
            m = ke // kf
            if m <= 0 or m in tried or m > 4:
                continue
            tried.add(m)
            r = e - f.scale(m)
            if entails_rest(facts, iv, r, depth - 1, f):
                if trace is not None:
                    trace.append((m, f))
                return True
    return False


def entails_rest(facts, iv, e, depth, used):
    if ub(e, iv) <= 0:
        return True
    if depth == 0:
        return False
    pos = {s: k for s, k in e.t}
    for f in facts:
        if f is used:
            continue
        for s, kf in f.t:
            ke = pos.get(s)
            if ke is None or (ke > 0) != (kf > 0) or ke % kf != 0:
                continue
            m = ke // kf
            if m <= 0 or m > 4:
                continue
            r = e - f.scale(m)
            if entails_rest(facts, iv, r, depth - 1, f):
                return True
            break
    return False
