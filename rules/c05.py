"""C05 Parsing honours the record framing of the message."""
from common import Report, Violation, where_of
from lin import Lin, entails
import mirutil as mu
import loops


def viol(report, rule, b, kind, msg, sn=""):
    report.violate(Violation(report.key(b.qname, rule, kind, sn), "%s:%d" % (b.file, b.line), rule, "%s: %s" % (rule, msg)))


def reads_of(an):
    return sorted(an.reads, key=lambda r: (repr(r["off"]), r["bi"]))


def run(ctx):
    prog = ctx.prog
    report = Report("C05", ctx, "R1 at every Ok return of RData::parse the numeric domain entails cursor_out = cursor_in + 10 + RDLENGTH, "
                    "where RDLENGTH is the 16-bit big-endian read at +8; R2 the typed parser receives the message prefix ending at "
                    "that position; R3 TYPE/CLASS/TTL/RDLENGTH and QTYPE/QCLASS are read at their fixed offsets after the name; "
                    "R4 parse_section pushes exactly one parsed element per iteration of a 0..count loop.")
    rp = ctx.must_find(report, "simple_dns::<RData as WireFormat>::parse")
    rr = ctx.must_find(report, "simple_dns::<ResourceRecord as WireFormat>::parse")
    qp = ctx.must_find(report, "simple_dns::<Question as WireFormat>::parse")
    ps = ctx.must_find(report, "simple_dns::Packet::parse_section")
    if None in (rp, rr, qp, ps):
        return report.finish()
    W = ctx.whole
    # ---------------- R1 / R2 on RData::parse
    an = W.results[rp.id]
    entry = Lin.sym("(*_2)@entry")
    rd = [r for r in an.reads if r["root"] == "_1" and r["width"] == 2 and r["order"] == "BE" and (r["off"] - entry) == Lin.const(8)]
    ty = [r for r in an.reads if r["root"] == "_1" and r["width"] == 2 and r["order"] == "BE" and (r["off"] - entry) == Lin.const(0)]
    report.count(2)
    if len(rd) != 1 or len(ty) != 1:
        viol(report, "C05-R3", rp, "layout", "RData::parse does not read TYPE at +0 and RDLENGTH at +8 as 16-bit big-endian integers "
             "(reads: %s)" % [(repr(r["off"]), r["width"], r["order"]) for r in an.reads])
        return report.finish()
    report.nontriv("rdata header reads")
    rdlen = Lin.sym(rd[0]["sym"])
    oks = [(bi, st, v) for bi, st, v in an.ok_points if v is not None and ((v[0] == "adt" and v[2] == "Ok") or v[0] == "callres")]
    n_ok = 0
    for bi, st, v in oks:
        if v[0] == "callres":
            import panics
            st = panics.apply_ok(an, st, v[1])
        out = st.store.get("(*_2)")
        n_ok += 1
        report.count()
        goal = entry + 10 + rdlen
        if out is None or out[0] != "lin" or not (entails(st.facts, an.iv, out[1] - goal, an.depth) and entails(st.facts, an.iv, goal - out[1], an.depth)):
            sn = rp.blocks[bi]["term"].get("sp", {}).get("sn") if rp.blocks[bi]["term"].get("sp") else ""
            viol(report, "C05-R1", rp, "cursor-post",
                 "on the Ok return at bb%d the cursor is %s; nothing relates it to start + 10 + RDLENGTH, so a record whose typed "
                 "content does not fill its RDLENGTH makes the next entry start inside this record" % (bi, out[1] if out else "untracked"),
                 "ok-return#%d" % oks.index((bi, st if v[0] != "callres" else oks[oks.index((bi, _st(oks, bi), v))][1], v)) if False else "ok-return bb%d" % bi)
        else:
            report.nontriv("ok bb%d" % bi)
            report.sample({"fn": rp.qname, "ok_return": "bb%d" % bi, "entailed": "cursor_out = cursor_in + 10 + RDLENGTH"})
    report.floor("Ok returns of RData::parse", n_ok, 3)
    # R2: slices handed to the typed parsers
    typed = [e for e in an.events if e.get("callee") and e["callee"]["name"] in ("parse_rdata", "parse") and e["callee"]["crate"] == "simple_dns"]
    report.floor("typed-parser calls in RData::parse", len(typed), 2)
    for e in typed:
        report.count()
        v0 = e["vals"][0]
        st = e.get("st")
        okk = False
        if v0 is not None and v0[0] == "slice" and st is not None:
            root, off = an.root_of(v0[1])
            ln = st.store.get("len:" + v0[1])
            goal = entry + 10 + rdlen
            if root == "_1" and off == Lin.const(0) and ln is not None and \
                    entails(st.facts, an.iv, ln[1] - goal, an.depth) and entails(st.facts, an.iv, goal - ln[1], an.depth):
                okk = True
        if okk:
            report.nontriv("slice bb%d" % e["bi"])
        else:
            viol(report, "C05-R2", rp, "rdata-slice", "the typed parser called at `%s` is not given the prefix of the message that ends at "
                 "start + 10 + RDLENGTH" % (e["sp"].get("sn") or e["callee"]["def"]), e["sp"].get("sn") or "")
    # ---------------- R3 fixed header of ResourceRecord / Question
    for b, wants, adv in ((rr, {2: (2, "class"), 4: (4, "ttl")}, None), (qp, {0: (2, "qtype"), 2: (2, "qclass")}, 4)):
        a2 = W.results[b.id]
        name_calls = [e for e in a2.events if e.get("callee") and e["callee"]["def"].endswith("WireFormat<'a>>::parse") and "Name" in e["callee"]["def"]]
        report.count()
        if len(name_calls) != 1 or not name_calls[0].get("cursor"):
            viol(report, "C05-R3", b, "layout", "%s does not start with exactly one Name::parse on the shared cursor" % b.qname)
            continue
        after = name_calls[0]["cursor"][2]
        got = {}
        for r in a2.reads:
            d = r["off"] - after
            if r["root"] == "_1" and d.is_const():
                got[d.c] = (r["width"], r["order"])
        for off, (w, nm) in wants.items():
            report.count()
            if got.get(off) != (w, "BE"):
                viol(report, "C05-R3", b, "layout", "%s reads %s at +%d as %s; the wire format has a %d-byte big-endian integer there (reads after the name: %s)" % (
                    b.qname, nm, off, got.get(off), w, got), nm)
            else:
                report.nontriv("%s:%s" % (b.qname, nm))
        if adv is not None:
            oks2 = [(bi, st, v) for bi, st, v in a2.ok_points if v is not None and v[0] == "adt" and v[2] == "Ok"]
            for bi, st, v in oks2:
                out = st.store.get("(*_2)")
                report.count()
                if out is None or out[0] != "lin" or out[1] != after + adv:
                    viol(report, "C05-R3", b, "advance", "%s leaves the cursor at %s, expected %d bytes after the name" % (b.qname, out, adv))
                else:
                    report.nontriv("%s advance" % b.qname)
    # ResourceRecord::parse must hand the cursor (unchanged) to RData::parse right after the name
    a3 = W.results[rr.id]
    rcalls = [e for e in a3.events if e.get("callee") and "RData" in e["callee"]["def"] and e["callee"]["name"] == "parse"]
    ncall = [e for e in a3.events if e.get("callee") and "Name" in e["callee"]["def"] and e["callee"]["name"] == "parse"]
    report.count()
    if len(rcalls) == 1 and len(ncall) == 1 and rcalls[0].get("cursor") and ncall[0].get("cursor") and rcalls[0]["cursor"][1] == ncall[0]["cursor"][2]:
        report.nontriv("rr hands cursor to rdata")
    else:
        viol(report, "C05-R3", rr, "layout", "ResourceRecord::parse does not pass the cursor left by Name::parse straight to RData::parse")
    # ---------------- R4 parse_section
    lps, irr, dom = loops.natural_loops(ps)
    report.count()
    pushes = mu.calls(ps, r"^std::vec::Vec::<T, A>::push$")
    parses = mu.calls(ps, r"wire_format::WireFormat::parse$")
    if len(lps) != 1 or len(pushes) != 1 or len(parses) != 1:
        viol(report, "C05-R4", ps, "shape", "parse_section is no longer one loop with one element parser and one push (%d loops, %d parse calls, %d pushes)" % (
            len(lps), len(parses), len(pushes)))
    else:
        h, info = list(lps.items())[0]
        tpl, why = loops.check_loop(ctx, ps, W.results.get(ps.id), h, info, dom)
        in_loop = pushes[0][0] in info["body"] and parses[0][0] in info["body"]
        defs = mu.defs_of(ps)
        src = mu.origin_local(ps, defs, mu.op_local(pushes[0][1]["args"][1]))
        flows = False
        # pushed value <- Continue payload of branch(parse result)
        for st in mu.trace_back(ps, defs, mu.op_local(pushes[0][1]["args"][1]) or -1):
            pass
        cnt = ps.local_names()
        range_ok = "Range<u16>" in why if tpl else False
        if tpl == "T1" and in_loop and range_ok:
            report.nontriv("parse_section")
            report.sample({"fn": ps.qname, "loop": why})
        else:
            viol(report, "C05-R4", ps, "shape", "parse_section: the element parser and the push are not both inside a finite 0..count loop (%s)" % why)
    report.assumptions += ["A-OVF", "equality of decoded field values with a reference decoder is not decided (value-level)"]
    return report.finish()


def _st(oks, bi):
    for b2, st, v in oks:
        if b2 == bi:
            return st
    return None
