"""C05 Parsing honours the record framing of the message."""
from common import Report, Violation, where_of
from lin import Lin, entails
import mirutil as mu
import loops


def viol(report, rule, b, kind, msg, sn=""):
    report.violate(Violation(report.key(b.qname, rule, kind, sn), "%s:%d" % (b.file, b.line), rule, "%s: %s" % (rule, msg)))


def reads_of(an):
    return sorted(an.reads, key=lambda r: (repr(r["off"]), r["bi"]))


def run(ctx):
    prog = ctx.prog
    report = Report("C05", ctx, "R1 at every Ok return of RData::parse the numeric domain entails cursor_out = cursor_in + 10 + RDLENGTH, "
                    "where RDLENGTH is the 16-bit big-endian read at +8; R2 the typed parser receives the message prefix ending at "
                    "that position; R3 TYPE/CLASS/TTL/RDLENGTH and QTYPE/QCLASS are read at their fixed offsets after the name; "
                    "R4 parse_section pushes exactly one parsed element per iteration of a 0..count loop; "
                    "R5 Packet::parse fills questions/answers/name_servers/additional_records from four consecutive parse_section "
                    "calls whose counts are QDCOUNT/ANCOUNT/NSCOUNT/ARCOUNT in that order, and touches the resulting vectors "
                    "mutably only through the order-preserving Vec::remove that lifts the OPT record out.")
    rp = ctx.must_find(report, "simple_dns::<RData as WireFormat>::parse")
    rr = ctx.must_find(report, "simple_dns::<ResourceRecord as WireFormat>::parse")
    qp = ctx.must_find(report, "simple_dns::<Question as WireFormat>::parse")
    ps = ctx.must_find(report, "simple_dns::Packet::parse_section")
    if None in (rp, rr, qp, ps):
        return report.finish()
    W = ctx.whole
    # ---------------- R1 / R2 on RData::parse
    an = W.results[rp.id]
    entry = Lin.sym("(*_2)@entry")
    rd = [r for r in an.reads if r["root"] == "_1" and r["width"] == 2 and r["order"] == "BE" and (r["off"] - entry) == Lin.const(8)]
    ty = [r for r in an.reads if r["root"] == "_1" and r["width"] == 2 and r["order"] == "BE" and (r["off"] - entry) == Lin.const(0)]
    report.count(2)
    if len(rd) != 1 or len(ty) != 1:
        viol(report, "C05-R3", rp, "layout", "RData::parse does not read TYPE at +0 and RDLENGTH at +8 as 16-bit big-endian integers "
             "(reads: %s)" % [(repr(r["off"]), r["width"], r["order"]) for r in an.reads])
        return report.finish()
    report.nontriv("rdata header reads")
    rdlen = Lin.sym(rd[0]["sym"])
    oks = [(bi, st, v) for bi, st, v in an.ok_points if v is not None and ((v[0] == "adt" and v[2] == "Ok") or v[0] == "callres")]
    n_ok = 0
    for bi, st, v in oks:
        if v[0] == "callres":
            import panics
            st = panics.apply_ok(an, st, v[1])
        out = st.store.get("(*_2)")
        n_ok += 1
        report.count()
        goal = entry + 10 + rdlen
        if out is None or out[0] != "lin" or not (entails(st.facts, an.iv, out[1] - goal, an.depth) and entails(st.facts, an.iv, goal - out[1], an.depth)):
            sn = rp.blocks[bi]["term"].get("sp", {}).get("sn") if rp.blocks[bi]["term"].get("sp") else ""
            viol(report, "C05-R1", rp, "cursor-post",
                 "on the Ok return at bb%d the cursor is %s; nothing relates it to start + 10 + RDLENGTH, so a record whose typed "
                 "content does not fill its RDLENGTH makes the next entry start inside this record" % (bi, out[1] if out else "untracked"),
                 "ok-return#%d" % oks.index((bi, st if v[0] != "callres" else oks[oks.index((bi, _st(oks, bi), v))][1], v)) if False else "ok-return bb%d" % bi)
        else:
            report.nontriv("ok bb%d" % bi)
            report.sample({"fn": rp.qname, "ok_return": "bb%d" % bi, "entailed": "cursor_out = cursor_in + 10 + RDLENGTH"})
    report.floor("Ok returns of RData::parse", n_ok, 3)
    # R2: slices handed to the typed parsers
    typed_names = {"parse_rdata", "parse"} | set(prog.bodies[i].name for i in prog.renamed.values() if i in prog.bodies)
    typed = [e for e in an.events if e.get("callee") and e["callee"]["name"] in typed_names and e["callee"]["crate"] == "simple_dns"]
    report.floor("typed-parser calls in RData::parse", len(typed), 2)
    for e in typed:
        report.count()
        v0 = e["vals"][0]
        st = e.get("st")
        okk = False
        if v0 is not None and v0[0] == "slice" and st is not None:
            root, off = an.root_of(v0[1])
            ln = st.store.get("len:" + v0[1])
            goal = entry + 10 + rdlen
            if root == "_1" and off == Lin.const(0) and ln is not None and \
                    entails(st.facts, an.iv, ln[1] - goal, an.depth) and entails(st.facts, an.iv, goal - ln[1], an.depth):
                okk = True
        if okk:
            report.nontriv("slice bb%d" % e["bi"])
        else:
            viol(report, "C05-R2", rp, "rdata-slice", "the typed parser called at `%s` is not given the prefix of the message that ends at "
                 "start + 10 + RDLENGTH" % (e["sp"].get("sn") or e["callee"]["def"]), e["sp"].get("sn") or "")
    # ---------------- R3 fixed header of ResourceRecord / Question
    for b, wants, adv in ((rr, {2: (2, "class"), 4: (4, "ttl")}, None), (qp, {0: (2, "qtype"), 2: (2, "qclass")}, 4)):
        a2 = W.results[b.id]
        name_calls = [e for e in a2.events if e.get("callee") and e["callee"]["def"].endswith("WireFormat<'a>>::parse") and "Name" in e["callee"]["def"]]
        report.count()
        if len(name_calls) != 1 or not name_calls[0].get("cursor"):
            viol(report, "C05-R3", b, "layout", "%s does not start with exactly one Name::parse on the shared cursor" % b.qname)
            continue
        after = name_calls[0]["cursor"][2]
        got = {}
        for r in a2.reads:
            d = r["off"] - after
            if r["root"] == "_1" and d.is_const():
                got[d.c] = (r["width"], r["order"])
        for off, (w, nm) in wants.items():
            report.count()
            if got.get(off) != (w, "BE"):
                viol(report, "C05-R3", b, "layout", "%s reads %s at +%d as %s; the wire format has a %d-byte big-endian integer there (reads after the name: %s)" % (
                    b.qname, nm, off, got.get(off), w, got), nm)
            else:
                report.nontriv("%s:%s" % (b.qname, nm))
        if adv is not None:
            oks2 = [(bi, st, v) for bi, st, v in a2.ok_points if v is not None and v[0] == "adt" and v[2] == "Ok"]
            for bi, st, v in oks2:
                out = st.store.get("(*_2)")
                report.count()
                if out is None or out[0] != "lin" or out[1] != after + adv:
                    viol(report, "C05-R3", b, "advance", "%s leaves the cursor at %s, expected %d bytes after the name" % (b.qname, out, adv))
                else:
                    report.nontriv("%s advance" % b.qname)
    # ResourceRecord::parse must hand the cursor (unchanged) to RData::parse right after the name
    a3 = W.results[rr.id]
    rcalls = [e for e in a3.events if e.get("callee") and "RData" in e["callee"]["def"] and e["callee"]["name"] == "parse"]
    ncall = [e for e in a3.events if e.get("callee") and "Name" in e["callee"]["def"] and e["callee"]["name"] == "parse"]
    report.count()
    if len(rcalls) == 1 and len(ncall) == 1 and rcalls[0].get("cursor") and ncall[0].get("cursor") and rcalls[0]["cursor"][1] == ncall[0]["cursor"][2]:
        report.nontriv("rr hands cursor to rdata")
    else:
        viol(report, "C05-R3", rr, "layout", "ResourceRecord::parse does not pass the cursor left by Name::parse straight to RData::parse")
    # ---------------- R4 parse_section (or, when it was folded into Packet::parse, every loop there that parses elements)
    lps, irr, dom = loops.natural_loops(ps)
    report.count()
    pushes = mu.calls(ps, r"^std::vec::Vec::<T, A>::push$")
    parses = mu.calls(ps, r"wire_format::WireFormat::parse$")
    el_loops = [(h, info) for h, info in sorted(lps.items()) if any(pb in info["body"] for pb, _ in parses)]
    absorbed = "simple_dns::Packet::parse_section" in getattr(prog, "absorbed", {})
    if not el_loops or (not absorbed and (len(lps) != 1 or len(pushes) != 1 or len(parses) != 1)) or (absorbed and len(el_loops) != 4):
        viol(report, "C05-R4", ps, "shape", "parse_section is no longer one loop with one element parser and one push (%d loops, %d parse calls, %d pushes)" % (
            len(lps), len(parses), len(pushes)))
    else:
        for h, info in el_loops:
            tpl, why = loops.check_loop(ctx, ps, W.results.get(ps.id), h, info, dom)
            n_parse = sum(1 for pb, _ in parses if pb in info["body"])
            n_push = sum(1 for pb, _ in pushes if pb in info["body"])
            range_ok = "Range<u16>" in why if tpl else False
            if tpl == "T1" and n_parse == 1 and n_push == 1 and range_ok:
                report.nontriv("parse_section loop bb%d" % h)
                report.sample({"fn": ps.qname, "loop": why})
            else:
                viol(report, "C05-R4", ps, "shape", "parse_section: the element parser and the push are not both inside a finite 0..count loop "
                     "(%d parse calls, %d pushes; %s)" % (n_parse, n_push, why))
    r5(ctx, report)
    report.assumptions += ["A-OVF", "equality of decoded field values with a reference decoder is not decided (value-level)"]
    return report.finish()


SECTIONS = ["questions", "answers", "name_servers", "additional_records"]


def r5(ctx, report):
    """sections keep wire order: which count feeds which section, which section lands in which field, and no
    reordering / dropping operation on the section vectors between parse_section and the returned Packet"""
    prog = ctx.prog
    pp = ctx.must_find(report, "simple_dns::Packet::parse")
    if pp is None:
        return
    defs = mu.defs_of(pp)
    dom = mu.dominators(pp)
    calls = mu.calls(pp, r"Packet::<'a>::parse_section$")
    report.count()
    fill_pushes = set()  # blocks of the pushes that fill a section's vector inside its own element loop (merged form)
    sites = []           # (block for the order, local holding the count, cursor operand, (local, path) where the section's vector starts)
    if len(calls) == 4:
        for bi, t in calls:
            sites.append((bi, mu.op_local(t["args"][2]), t["args"][1], (t["dest"]["l"], (("v", "Ok"), ("f", 0)))))
    elif not calls and "simple_dns::Packet::parse_section" in getattr(prog, "absorbed", {}):
        # parse_section folded into Packet::parse (through a helper inlined back): one element loop per section
        lps, _irr, _dom = loops.natural_loops(pp)
        parses = mu.calls(pp, r"wire_format::WireFormat::parse$")
        pushes = mu.calls(pp, r"^std::vec::Vec::<T, A>::push$")
        for h, info in sorted(lps.items()):
            ps_in = [(b0, t0) for b0, t0 in parses if b0 in info["body"]]
            pu_in = [(b0, t0) for b0, t0 in pushes if b0 in info["body"]]
            ht = pp.blocks[h]["term"]
            if len(ps_in) != 1 or len(pu_in) != 1 or ht["t"] != "call" or not ht.get("callee") or not ht["callee"]["def"].endswith("Range<A>>::next"):
                continue
            # the count: `end` of the Range the loop runs over
            itl = mu.ref_root(pp, defs, mu.op_local(ht["args"][0])) if mu.op_local(ht["args"][0]) is not None else None
            cnt = None
            cur = itl
            for _ in range(6):
                d0 = mu.single_def(defs, cur) if cur is not None else None
                if d0 is None:
                    break
                if d0[1] == "term":
                    nm = d0[2]["callee"]["def"] if d0[2].get("callee") else ""
                    if nm.endswith("into_iter") and d0[2]["args"]:
                        cur = mu.op_local(d0[2]["args"][0])
                        continue
                    break
                rv0 = d0[2]
                if rv0.get("k") == "agg" and rv0.get("adt", "").endswith("Range") and len(rv0["ops"]) == 2:
                    cnt = mu.op_local(rv0["ops"][1])
                    break
                if rv0.get("k") == "use" and rv0["op"].get("o") in ("copy", "move") and not rv0["op"]["pl"]["p"]:
                    cur = rv0["op"]["pl"]["l"]
                    continue
                break
            vec = mu.ref_root(pp, defs, mu.op_local(pu_in[0][1]["args"][0])) if mu.op_local(pu_in[0][1]["args"][0]) is not None else None
            if cnt is not None and vec is not None:
                sites.append((h, cnt, ps_in[0][1]["args"][1], (vec, ())))
                fill_pushes.add(pu_in[0][0])
    if len(sites) != 4:
        viol(report, "C05-R5", pp, "sections", "Packet::parse calls parse_section %d times, expected once per section (4)" % len(calls))
        return
    # wire order = dominance order of the sites (they share one cursor)
    sites.sort(key=lambda c: len(dom[c[0]]))
    for s1, s2 in zip(sites, sites[1:]):
        if s1[0] not in dom[s2[0]]:
            viol(report, "C05-R5", pp, "sections", "the parse_section calls are not on one straight path")
            return
    cursors = set()
    vec_of_call = []
    for k, (bi, cnt, cursor_op, vstart) in enumerate(sites):
        report.count()
        # the count: Continue payload of header_buffer::<section>(data)? (through casts / copies into a helper's parameter)
        src = None
        cur = cnt
        for _ in range(12):
            if cur is None:
                break
            ds = defs.get(cur, [])
            if len(ds) != 1:
                break
            bi2, si2, x = ds[0]
            if si2 == "term":
                cal = x["callee"]["def"] if x["callee"] else ""
                if cal.endswith("as std::ops::Try>::branch"):
                    cur = mu.op_local(x["args"][0])
                    continue
                src = cal
                break
            if x.get("k") in ("use", "cast") and x["op"].get("o") in ("copy", "move"):
                cur = x["op"]["pl"]["l"]     # payload projections `(_19 as Continue).0` keep the base local
                continue
            break
        want = "header_buffer::%s" % SECTIONS[k]
        if src is None or not src.endswith(want):
            viol(report, "C05-R5", pp, "count", "the %s parse_section call takes its count from %s, expected %s: entries would be "
                 "attributed to the wrong section" % (["first", "second", "third", "fourth"][k], src or "an untraced value", want), SECTIONS[k])
        else:
            report.nontriv("count %s" % SECTIONS[k])
        # cursor argument: &mut of one and the same local (or of one and the same field of a local struct)
        c = mu.op_local(cursor_op)
        st = mu.trace_back(pp, defs, c) if c is not None else []
        base = None
        for (_, _, si3, x) in st:
            if si3 != "term" and x.get("k") == "ref" and not x["pl"]["p"]:
                base = x["pl"]["l"]
        if base is None and c is not None:
            for (_, _, si3, x) in st:
                if si3 != "term" and x.get("k") == "ref":
                    loc = mu.resolve_loc(pp, defs, x["pl"])
                    if loc is not None:
                        base = ("field",) + (loc[0],) + tuple(loc[1])
                        break
        cursors.add(base)
        # result vector: every local that holds the section's Vec as a whole (through `?`, moves, a carrier struct ...)
        vec = set()
        for (tl, tp) in mu.flow_forward(pp, vstart[0], start_path=vstart[1]):
            if not tp and pp.local_ty(tl)["s"].startswith("std::vec::Vec<"):
                vec.add(tl)
        vec_of_call.append(vec)
    report.count()
    if len(cursors) != 1 or None in cursors:
        viol(report, "C05-R5", pp, "cursor", "the four parse_section calls do not share one cursor variable")
    else:
        report.nontriv("one cursor")
    # the Ok(Packet{..}) aggregate: field k+1 <- vector of call k
    aggs = mu.aggregates(pp, "packet::Packet")
    report.count()
    if len(aggs) != 1:
        viol(report, "C05-R5", pp, "fields", "expected one Packet construction in Packet::parse, found %d" % len(aggs))
        return
    adt = prog.adts.get("simple_dns::dns::packet::Packet")
    fnames = [f["name"] for f in adt["variants"][0]["fields"]] if adt else []
    ops = aggs[0][2]["rv"]["ops"]
    for k, sec in enumerate(SECTIONS):
        report.count()
        if sec not in fnames:
            viol(report, "C05-R5", pp, "fields", "Packet has no field %s" % sec, sec)
            continue
        o = mu.origin_local(pp, defs, mu.op_local(ops[fnames.index(sec)]))
        if o not in vec_of_call[k]:
            viol(report, "C05-R5", pp, "fields", "Packet.%s is not the vector returned by the %s parse_section call (wire order of "
                 "sections is lost)" % (sec, ["first", "second", "third", "fourth"][k]), sec)
        else:
            report.nontriv("field %s" % sec)
    # mutable access to the section vectors: `&mut <vec>` may only feed the audited lift-out closure, whose only
    # mutation is Vec::remove (order-preserving; swap_remove / retain / sort / reverse / drain ... are not)
    vecs = set(v for c in vec_of_call for v in c)
    # every `&mut` reference to a section vector, with its copies and reborrows (a reference handed to a helper that has
    # been inlined back is `_p = move _r; ... &mut (*_p)`): whatever receives one of them may only remove / pop
    n_mut = 0
    refs = {}          # reference local -> vector local
    changed = True
    while changed:
        changed = False
        for bi, bl in enumerate(pp.blocks):
            if bl["cleanup"]:
                continue
            for s2 in bl["stmts"]:
                if s2["s"] != "assign" or s2["pl"]["p"]:
                    continue
                rv = s2["rv"]
                tgt = None
                if rv["k"] == "ref" and rv["mut"]:
                    if not rv["pl"]["p"] and rv["pl"]["l"] in vecs:
                        tgt = rv["pl"]["l"]
                    elif rv["pl"]["p"] == ["d"] and rv["pl"]["l"] in refs:
                        tgt = refs[rv["pl"]["l"]]
                elif rv["k"] in ("use", "cast") and rv["op"].get("o") in ("copy", "move") and not rv["op"]["pl"]["p"] and rv["op"]["pl"]["l"] in refs:
                    tgt = refs[rv["op"]["pl"]["l"]]
                if tgt is not None and s2["pl"]["l"] not in refs:
                    refs[s2["pl"]["l"]] = tgt
                    changed = True
    OKM = ("std::vec::Vec::<T, A>::remove", "std::vec::Vec::<T, A>::pop")
    by_vec = {}
    for r, v in refs.items():
        by_vec.setdefault(v, set()).add(r)
    for v, rs in sorted(by_vec.items()):
        n_mut += 1
        report.count()
        bad = []
        uses = 0
        for cbi, tt in mu.calls(pp, r"."):
            if cbi in fill_pushes:
                continue            # the push that builds the section, in wire order, inside its own loop
            if any(mu.op_local(a) in rs for a in tt["args"]):
                uses += 1
                cal = tt["callee"]["def"] if tt["callee"] else "an indirect call"
                if not (cal in OKM and mu.op_local(tt["args"][0]) in rs):
                    bad.append(cal)
        for bl2 in pp.blocks:
            for s3 in bl2["stmts"]:
                if s3["s"] == "assign" and s3["rv"]["k"] == "agg" and s3["rv"].get("ak") == "closure" and \
                        any(mu.op_local(o) in rs for o in s3["rv"]["ops"]):
                    uses += 1
                    cb = prog.bodies.get(s3["rv"]["def"])
                    muts = []
                    for _, tt in mu.calls(cb, r".") if cb is not None else []:
                        a0 = tt["args"][0] if tt["args"] else None
                        if a0 is not None and a0.get("o") in ("copy", "move") and \
                                cb.ty(a0["pl"]["t"])["s"].startswith("&mut std::vec::Vec<"):
                            muts.append(tt["callee"]["def"])
                    if cb is None or len(muts) > 1 or any(m not in OKM for m in muts):
                        bad.append("a closure that mutates it through %s" % (muts,))
        if bad:
            viol(report, "C05-R5", pp, "order", "section vector _%d is borrowed mutably and handed to %s: only Vec::remove / pop keep the "
                 "remaining records in wire order" % (v, sorted(set(bad))), "mut-borrow")
        else:
            report.nontriv("mut-borrow _%d" % v)
    # calls that take a section vector by value (into_iter / sort via by-value helpers) before the aggregate
    for bi, t in mu.calls(pp, r"."):
        for a in t["args"]:
            if a.get("o") == "move" and not a["pl"]["p"] and a["pl"]["l"] in vecs:
                report.count()
                viol(report, "C05-R5", pp, "order", "section vector _%d is moved into %s before the Packet is built" % (
                    a["pl"]["l"], t["callee"]["def"] if t["callee"] else "an indirect call"), "moved")
    report.extra["C05-R5"] = {"section_vectors": sorted(vecs), "mutable_borrows": n_mut}


def _st(oks, bi):
    for b2, st, v in oks:
        if b2 == bi:
            return st
    return None
