"""Structural predicates that re-validate audited sites on every run (tables/audited_sites.tsv)."""

PREDICATES = {}


def predicate(name):
    def deco(f):
        PREDICATES[name] = f
        return f
    return deco


def validate(ctx, name, body, ob):
    f = PREDICATES.get(name)
    if f is None:
        return False, "predicate %s is not implemented" % name
    try:
        return f(ctx, body, ob)
    except Exception as e:  # fail closed
        return False, "predicate %s raised %r" % (name, e)
