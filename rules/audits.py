"""Structural predicates that re-validate audited sites on every run (tables/audited_sites.tsv)."""

PREDICATES = {}


def predicate(name):
    def deco(f):
        PREDICATES[name] = f
        return f
    return deco


def validate(ctx, name, body, ob):
    f = PREDICATES.get(name)
    if f is None:
        return False, "predicate %s is not implemented" % name
    try:
        return f(ctx, body, ob)
    except Exception as e:  # fail closed
        return False, "predicate %s raised %r" % (name, e)

import mirutil as mu


def _closure_body(ctx, parent, n):
    return ctx.prog.bodies.get("%s::{closure#%d}" % (parent.id, n))


@predicate("remove_at_position_of_same_vec")
def remove_at_position(ctx, body, ob):
    """`v.iter().position(p).map(|i| v.remove(i))`: the index comes from position() over the very vector
    the closure removes from, and nothing touches the vector in between."""
    prog = ctx.prog
    parent = prog.bodies.get(body.root)
    if parent is None or body.kind != "Closure":
        return False, "site is not in a closure"
    # inside the closure: remove(deref of captured field 0, closure parameter _2)
    rem = mu.calls(body, r"^std::vec::Vec::<T, A>::(remove|swap_remove)$")
    if len(rem) != 1:
        return False, "expected exactly one Vec::remove / swap_remove in the closure"
    _, t = rem[0]
    cdefs = mu.defs_of(body)
    if mu.origin_local(body, cdefs, mu.op_local(t["args"][1])) != 2:
        return False, "removed index is not the closure's parameter"
    a0 = t["args"][0]
    if a0["o"] not in ("copy", "move"):
        return False, "remove receiver is not a place"
    steps = mu.trace_back(body, cdefs, a0["pl"]["l"])
    last = steps[-1][3] if steps else None
    if not (last and last.get("k") == "use" and last["op"]["o"] in ("copy", "move") and last["op"]["pl"]["l"] == 1
            and last["op"]["pl"]["p"] and isinstance(last["op"]["pl"]["p"][0], dict) and last["op"]["pl"]["p"][0].get("f") == 0):
        return False, "remove receiver is not the captured vector"
    # in the parent: map(position(iter(deref(&V))), closure[&mut V])
    defs = mu.defs_of(parent)
    maps = [(bi, t) for bi, t in mu.calls(parent, r"^std::option::Option::<T>::map$")]
    for bi, t in maps:
        cl = mu.op_local(t["args"][1])
        d = mu.single_def(defs, cl) if cl is not None else None
        if d is None or d[2].get("k") != "agg" or d[2].get("def") != body.id:
            continue
        cap = mu.op_local(d[2]["ops"][0]) if d[2]["ops"] else None
        capd = mu.single_def(defs, cap) if cap is not None else None
        if capd is None or capd[2].get("k") != "ref" or not capd[2]["mut"] or capd[2]["pl"]["p"]:
            return False, "closure does not capture `&mut <local vec>`"
        vec = capd[2]["pl"]["l"]
        recv = mu.op_local(t["args"][0])
        rd = mu.single_def(defs, recv) if recv is not None else None
        if rd is None or rd[1] != "term" or not rd[2]["callee"]["def"].endswith("as std::iter::Iterator>::position"):
            return False, "map receiver is not the result of Iterator::position"
        pos_bi = rd[0]
        it = mu.op_local(rd[2]["args"][0])
        chain = mu.trace_back(parent, defs, it)
        # &mut _it ; _it = slice::iter(_r) ; _r = &(*_d) ; _d = Deref::deref(_g) ; _g = &V
        calls_seen = []
        cur = chain
        base = None
        node = it
        for _ in range(8):
            st = mu.trace_back(parent, defs, node)
            if not st:
                break
            last = st[-1]
            if last[2] == "term":
                calls_seen.append((last[1], last[3]["callee"]["def"]))
                node = mu.op_local(last[3]["args"][0])
                if node is None:
                    break
            else:
                first = st[0]
                if first[2] != "term" and first[3].get("k") == "ref" and not first[3]["pl"]["p"]:
                    base = first[3]["pl"]["l"]
                break
        names = [c[1] for c in calls_seen]
        if not (len(names) == 2 and names[0].endswith("<impl [T]>::iter") and names[1].endswith("as std::ops::Deref>::deref")):
            return False, "position() is not over `<vec>.iter()` (saw %s)" % names
        if base != vec:
            return False, "position() iterates a different vector than the closure removes from"
        # straight chain iter -> position -> map with no other use of the vector
        iter_bi = calls_seen[0][0]
        if parent.blocks[iter_bi]["term"]["target"] != pos_bi or parent.blocks[pos_bi]["term"]["target"] != bi:
            return False, "iter(), position() and map() are not consecutive"
        return True, "index is the result of position() over the same vector (local _%d), consecutive calls" % vec
    return False, "no Option::map call passes this closure"


@predicate("opt_record_selected_by_type_code")
def opt_selected(ctx, body, ob):
    """unreachable!() in Header::extract_info_from_opt_rr: the record passed in was selected by
    `rdata.type_code() == TYPE::OPT`, type_code yields OPT only for RData::OPT (or a stored Empty(ty)),
    and the parser never builds RData::Empty(TYPE::OPT)."""
    prog, cg = ctx.prog, ctx.cg
    sites = cg.callsites.get(body.id, [])
    callers = sorted(set(c.qname for c, _ in sites))
    if callers != ["simple_dns::Packet::parse"]:
        return False, "callers are %s, expected only Packet::parse" % callers
    parent = sites[0][0]
    # the argument is Option::map(position(.., closure#0), closure#1) and closure#0 tests type_code() == TYPE::OPT
    c0 = _closure_body(ctx, parent, 0)
    if c0 is None:
        return False, "selection closure not found"
    tc = mu.calls(c0, r"RData::<'a>::type_code$|RData.*::type_code$")
    eqs = mu.calls(c0, r"TYPE as std::cmp::PartialEq>::eq$")
    if len(tc) != 1 or len(eqs) != 1:
        return False, "selection closure is not `type_code() == <TYPE>`"
    pv = None
    for a in eqs[0][1]["args"]:
        d = None
        l = mu.op_local(a)
        if l is not None:
            dd = mu.single_def(mu.defs_of(c0), l)
            if dd is not None and dd[1] != "term" and dd[2].get("k") == "use":
                d = prog.promoted_value(dd[2]["op"])
            elif dd is not None and dd[1] != "term" and dd[2].get("k") == "ref":
                l2 = dd[2]["pl"]["l"]
                d2 = mu.single_def(mu.defs_of(c0), l2)
                if d2 is not None and d2[1] != "term" and d2[2].get("k") == "use":
                    d = prog.promoted_value(d2[2]["op"])
        pv = pv or d or prog.promoted_value(a)
    if pv is None or not pv[0].endswith("rdata::TYPE") or pv[1] != "OPT":
        return False, "selection closure compares with %s, not TYPE::OPT" % (pv,)
    # the closure's result is eq()'s result
    # extract argument flows from the map over position(closure#0)
    defs = mu.defs_of(parent)
    ext = [t for _, t in mu.calls(parent, r"extract_info_from_opt_rr$")]
    if len(ext) != 1:
        return False, "expected one call of extract_info_from_opt_rr"
    arg = mu.op_local(ext[0]["args"][1])
    d = mu.single_def(defs, arg)
    if d is None or d[1] != "term" or not d[2]["callee"]["def"].endswith("Option::<T>::map"):
        return False, "argument is not `position(..).map(..)`"
    recv = mu.single_def(defs, mu.op_local(d[2]["args"][0]))
    if recv is None or recv[1] != "term" or not recv[2]["callee"]["def"].endswith("::position"):
        return False, "argument is not selected by position()"
    pcl = mu.single_def(defs, mu.op_local(recv[2]["args"][1]))
    if pcl is None or pcl[2].get("def") != c0.id:
        return False, "position() predicate is not the type_code closure"
    # type_code(): TYPE::OPT is produced only in the arm of variant OPT; Empty(ty) returns the stored type
    tcb = prog.find("simple_dns::RData::type_code")
    if tcb is None:
        return False, "RData::type_code not found"
    opt_blocks = [bi for bi, si, s in mu.aggregates(tcb, "rdata::TYPE", "OPT")]
    sw = [(bi, bl["term"]) for bi, bl in enumerate(tcb.blocks) if bl["term"]["t"] == "switch" and not bl["cleanup"]]
    if len(sw) != 1 or len(opt_blocks) != 1:
        return False, "type_code is not a single switch table"
    adt = prog.adts.get("simple_dns::dns::rdata::RData")
    vi = [i for i, v in enumerate(adt["variants"]) if v["name"] == "OPT"][0]
    arms = {int(v): t for v, t in sw[0][1]["arms"]}
    if arms.get(vi) != opt_blocks[0] or list(arms.values()).count(opt_blocks[0]) != 1 or sw[0][1]["otherwise"] == opt_blocks[0]:
        return False, "TYPE::OPT is produced for a variant other than RData::OPT"
    # RData::Empty is built by the parser only when the type is not OPT
    rp = prog.find("simple_dns::<RData as WireFormat>::parse")
    if rp is None:
        return False, "RData::parse not found"
    empties = mu.aggregates(rp, "rdata::RData", "Empty")
    eqs = mu.calls(rp, r"TYPE as std::cmp::PartialEq>::eq$")
    if len(empties) != 1 or len(eqs) != 1:
        return False, "RData::parse: expected one Empty construction and one TYPE comparison"
    ebi = empties[0][0]
    eq_bi, eq_t = eqs[0]
    pv = None
    rdefs = mu.defs_of(rp)
    for a in eq_t["args"]:
        l = mu.op_local(a)
        for st in mu.trace_back(rp, rdefs, l):
            if st[2] != "term" and st[3].get("k") == "use":
                pv = pv or prog.promoted_value(st[3]["op"])
    if pv is None or pv[1] != "OPT":
        return False, "RData::parse does not compare the type with TYPE::OPT"
    swb = eq_t["target"]
    swt = rp.blocks[swb]["term"]
    if swt["t"] != "switch":
        return False, "comparison result is not branched on"
    false_t = [t for v, t in swt["arms"] if int(v) == 0]
    true_t = swt["otherwise"]
    if not false_t:
        return False, "unexpected branch shape"
    dom = mu.dominators(rp)
    if swb not in dom[ebi] or ebi in mu.reachable_from(rp, true_t):
        return False, "Empty can be constructed when the type is OPT"
    # no other constructor of RData::Empty under Packet::parse except field-for-field copies
    reach = cg.reachable([parent.id])
    others = []
    for bid in reach:
        ob2 = prog.bodies[bid]
        if ob2.id == rp.id or ob2.name in ("into_owned", "clone"):
            continue
        if mu.aggregates(ob2, "rdata::RData", "Empty"):
            others.append(ob2.qname)
    if others:
        return False, "RData::Empty also constructed in %s" % others
    return True, "selected by type_code()==OPT; type_code gives OPT only for RData::OPT; Empty is built only on the type!=OPT edge"


def _family(ctx, body):
    root_id = body.root if body.kind in ("Closure",) else body.id
    # async fn: the coroutine is a closure under the fn; select! adds nested closures
    top = ctx.prog.bodies.get(root_id, body)
    return [b for b in ctx.prog.bodies.values() if b.id == top.id or b.id.startswith(top.id + "::")]


def _places_equal(a, b):
    return a["l"] == b["l"] and a["p"] == b["p"]


def _u8_array_len(b, tix, depth=0):
    t = b.ty(tix)
    while t["k"] in ("ref", "ptr") and depth < 4:
        t = b.ty(t["t"])
        depth += 1
    if t["k"] == "array" and b.ty(t["t"])["s"] == "u8":
        return t["n"]
    return None


@predicate("recv_count_indexes_recv_buffer")
def recv_count(ctx, body, ob):
    """`buf[..count]` where (count, addr) is the Ok payload of recv_from(&mut buf): recv_from never reports more
    bytes than the buffer holds.  Checked structurally: the index flows, through moves and field projections only,
    from a value of type (usize, SocketAddr); every recv_from in the function (and its closures) receives a buffer
    backed by a [u8; N] array of the same N as the indexed array; no (usize, SocketAddr) tuple is built by hand."""
    t = body.blocks[ob.bi]["term"]
    if t["t"] != "call" or len(t["args"]) != 2:
        return False, "site is not an index call"
    n_idx = _u8_array_len(body, t["args"][0]["pl"]["t"]) if t["args"][0]["o"] in ("copy", "move") else None
    if n_idx is None:
        return False, "indexed value is not a [u8; N] array"
    # the range operand: RangeTo { count }
    defs = mu.defs_of(body)
    rl = mu.op_local(t["args"][1])
    rd = mu.single_def(defs, rl) if rl is not None else None
    if rd is None or rd[1] == "term" or rd[2].get("k") != "agg" or not rd[2].get("adt", "").endswith("RangeTo"):
        return False, "index is not `..count`"
    cur_op = rd[2]["ops"][0]
    ok_src = False
    for _ in range(12):
        if cur_op["o"] not in ("copy", "move"):
            break
        pl = cur_op["pl"]
        if body.ty(pl["t"])["s"] != "usize":
            break
        if pl["p"]:
            # field projection: which aggregate does it come out of?
            base_t = body.local_ty(pl["l"])["s"] if len(pl["p"]) == 1 else None
            last = pl["p"][-1]
            if isinstance(last, dict) and last.get("f") == 0 and len(pl["p"]) == 1 and base_t == "(usize, std::net::SocketAddr)":
                ok_src = True
                break
            # a saved local of the coroutine: find the assignments to the same place
            srcs = []
            for b2 in [body]:
                for bl in b2.blocks:
                    if bl["cleanup"]:
                        continue
                    for s in bl["stmts"]:
                        if s["s"] == "assign" and _places_equal(s["pl"], pl):
                            srcs.append(s["rv"])
            if len(srcs) != 1 or srcs[0]["k"] != "use":
                break
            cur_op = srcs[0]["op"]
            continue
        d = mu.single_def(defs, pl["l"])
        if d is None or d[1] == "term" or d[2].get("k") != "use":
            break
        cur_op = d[2]["op"]
    if not ok_src:
        return False, "count does not come (by moves only) from the first field of a (usize, SocketAddr) value"
    fam = _family(ctx, body)
    n_recv = 0
    for b2 in fam:
        for bl in b2.blocks:
            if bl["cleanup"]:
                continue
            for s in bl["stmts"]:
                if s["s"] == "assign" and s["rv"]["k"] == "agg" and s["rv"]["ak"] == "tuple" and \
                        b2.ty(s["pl"]["t"])["s"] == "(usize, std::net::SocketAddr)":
                    return False, "a (usize, SocketAddr) tuple is constructed by hand in %s" % b2.qname
        d2 = mu.defs_of(b2)
        for bi2, t2 in mu.calls(b2, r"::UdpSocket::(recv_from|recv|peek_from)$"):
            n_recv += 1
            # buffer argument -> array type
            a = t2["args"][1]
            n_buf = None
            cur = mu.op_local(a)
            for _ in range(8):
                if cur is None:
                    break
                dd = mu.single_def(d2, cur)
                if dd is None:
                    break
                if dd[1] == "term":
                    # &mut buf[..]  (IndexMut on the array)
                    tt = dd[2]
                    if tt["callee"] and "IndexMut" in tt["callee"]["def"] and tt["args"][0]["o"] in ("copy", "move"):
                        n_buf = _u8_array_len(b2, tt["args"][0]["pl"]["t"])
                    break
                rv = dd[2]
                if rv["k"] == "cast" and rv["op"]["o"] in ("copy", "move"):
                    n_buf = _u8_array_len(b2, rv["op"]["pl"]["t"])
                    if n_buf is not None:
                        break
                    cur = mu.op_local(rv["op"])
                elif rv["k"] == "ref":
                    n_buf = _u8_array_len(b2, rv["pl"]["t"])
                    if n_buf is not None and rv["pl"]["p"] and rv["pl"]["p"][-1] == "d" and False:
                        pass
                    if n_buf is not None and b2.ty(rv["pl"]["t"])["k"] == "array":
                        break
                    n_buf = None
                    cur = rv["pl"]["l"] if not [p for p in rv["pl"]["p"] if p != "d"] else None
                elif rv["k"] == "use":
                    cur = mu.op_local(rv["op"])
                else:
                    break
            if n_buf is None:
                return False, "cannot identify the buffer passed to recv_from in %s" % b2.qname
            if n_buf > n_idx:
                return False, "recv_from fills a %d-byte buffer but a %d-byte array is indexed" % (n_buf, n_idx)
    if n_recv == 0:
        return False, "no recv_from call in the function"
    return True, "count is the byte count of recv_from into a buffer no larger than the indexed [u8; %d] (%d recv_from call(s))" % (n_idx, n_recv)
