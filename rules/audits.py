"""Structural predicates that re-validate audited sites on every run (tables/audited_sites.tsv)."""

PREDICATES = {}


def predicate(name):
    def deco(f):
        PREDICATES[name] = f
        return f
    return deco


def validate(ctx, name, body, ob):
    f = PREDICATES.get(name)
    if f is None:
        return False, "predicate %s is not implemented" % name
    try:
        return f(ctx, body, ob)
    except Exception as e:  # fail closed
        return False, "predicate %s raised %r" % (name, e)

import mirutil as mu


def _closure_body(ctx, parent, n):
    return ctx.prog.bodies.get("%s::{closure#%d}" % (parent.id, n))


def _vec_base(b, defs, pl):
    """identity of the vector a place designates: a local, or (local, field path) when the vector is a field of a local struct
    (`sections.additional_records`), seen through references"""
    cb = mu.canon_base(b, defs, pl)
    if cb is not None:
        return cb
    loc = mu.resolve_loc(b, defs, pl)
    if loc is not None and loc[1]:
        return loc
    return None


def find_lift(ctx, parent):
    """The OPT lift-out of Packet::parse in either of its shapes
         v.iter().position(pred).map(|i| v.remove(i))                      (remove inside a closure)
         match v.iter().position(pred) { Some(i) => Some(v.remove(i)), None => None }   (remove in the function itself)
    Returns (info, None) or (None, why).  info: vec (local of the vector), pos (position call terminator), pred (body of the
    position predicate), remove (terminator), remove_body, result (local or ("map", local) that holds Option<removed>)."""
    prog = ctx.prog
    fam = [parent] + mu.closures_of(prog, parent)
    rems = []
    for x in fam:
        for bi, t in mu.calls(x, r"^std::vec::Vec::<T, A>::(remove|swap_remove)$"):
            rems.append((x, bi, t))
    if len(rems) != 1:
        return None, "expected exactly one Vec::remove / swap_remove under %s (found %d)" % (parent.qname, len(rems))
    rb, rbi, rt = rems[0]
    defs = mu.defs_of(parent)
    # position() finds the first match, rposition() the last: either is a valid index of the same vector
    pos_calls = mu.calls(parent, r"as std::iter::Iterator>::r?position$")
    if len(pos_calls) != 1:
        return None, "expected exactly one Iterator::position / rposition call (found %d)" % len(pos_calls)
    pos_bi, pos_t = pos_calls[0]
    pos_dest = pos_t["dest"]["l"]
    # which vector does position() run over:  &mut _it ; _it = <[T]>::iter(_r) ; _r = &*Deref::deref(&V)
    base = None
    names = []
    node = mu.op_local(pos_t["args"][0])
    for _ in range(8):
        st = mu.trace_back(parent, defs, node) if node is not None else []
        if not st:
            break
        last = st[-1]
        if last[2] == "term":
            names.append(last[3]["callee"]["def"])
            node = mu.op_local(last[3]["args"][0])
        else:
            for s1 in st:
                if s1[2] != "term" and s1[3].get("k") == "ref":
                    cb0 = _vec_base(parent, defs, s1[3]["pl"])
                    if cb0 is not None:
                        base = cb0
            break
    if not (len(names) == 2 and names[0].endswith("<impl [T]>::iter") and names[1].endswith("as std::ops::Deref>::deref")) or base is None:
        return None, "position() is not over `<vec>.iter()` (saw %s)" % names
    vec = base
    # the predicate closure
    pa = pos_t["args"][1]
    pred = None
    if pa.get("o") == "const" and pa["k"].get("c") == "fn" and isinstance(pa["k"].get("callee"), dict):
        pred = prog.bodies.get(pa["k"]["callee"].get("id"))          # a (nested) fn item passed by name
    else:
        pcl = mu.single_def(defs, mu.op_local(pa))
        pred = prog.bodies.get(pcl[2]["def"]) if pcl is not None and pcl[1] != "term" and pcl[2].get("ak") == "closure" else None
    if pred is None:
        return None, "position() predicate is neither a closure nor a function of the crate"
    info = {"vec": vec, "pos": pos_t, "pos_bi": pos_bi, "pred": pred, "remove": rt, "remove_body": rb, "remove_bi": rbi,
            "first": not pos_t["callee"]["def"].endswith("rposition")}
    if rb.kind == "Closure":
        cdefs = mu.defs_of(rb)
        if mu.origin_local(rb, cdefs, mu.op_local(rt["args"][1])) != 2:
            return None, "removed index is not the closure's parameter"
        a0 = rt["args"][0]
        steps = mu.trace_back(rb, cdefs, a0["pl"]["l"]) if a0["o"] in ("copy", "move") else []
        last = steps[-1][3] if steps else None
        if not (last and last.get("k") == "use" and last["op"]["o"] in ("copy", "move") and last["op"]["pl"]["l"] == 1
                and last["op"]["pl"]["p"] and isinstance(last["op"]["pl"]["p"][0], dict) and last["op"]["pl"]["p"][0].get("f") == 0):
            return None, "remove receiver is not the captured vector"
        maps = [(bi, t) for bi, t in mu.calls(parent, r"^std::option::Option::<T>::map$")
                if (lambda d: d is not None and d[1] != "term" and d[2].get("ak") == "closure" and d[2].get("def") == rb.id)(
                    mu.single_def(defs, mu.op_local(t["args"][1])))]
        if len(maps) != 1:
            return None, "the closure holding the remove is not passed to exactly one Option::map"
        mbi, mt = maps[0]
        d = mu.single_def(defs, mu.op_local(mt["args"][1]))
        cap = mu.op_local(d[2]["ops"][0]) if d[2]["ops"] else None
        capd = mu.single_def(defs, cap) if cap is not None else None
        if capd is None or capd[2].get("k") != "ref" or not capd[2]["mut"] or _vec_base(parent, defs, capd[2]["pl"]) != vec:
            return None, "the closure does not capture `&mut` of the vector position() ran over"
        if mu.origin_local(parent, defs, mu.op_local(mt["args"][0])) != pos_dest:
            return None, "Option::map is not applied to the result of position()"
        info["result"] = mt["dest"]["l"]
        info["borrow_block"] = capd[0]
    else:
        # index = payload of the Option position() returned
        il = mu.op_local(rt["args"][1])
        cur = il
        ok_ix = False
        for _ in range(6):
            d = mu.single_def(defs, cur) if cur is not None else None
            if d is None or d[1] == "term" or d[2].get("k") != "use" or d[2]["op"].get("o") not in ("copy", "move"):
                break
            pl = d[2]["op"]["pl"]
            if pl["p"]:
                dc = [p for p in pl["p"] if isinstance(p, dict) and "dc" in p]
                if dc and dc[0].get("n") == "Some" and mu.origin_local(parent, defs, pl["l"]) == pos_dest:
                    ok_ix = True
                elif dc and dc[0].get("n") == "Continue":
                    # `let i = v.iter().position(p)?;` - the Continue payload of Try::branch(position result)
                    bd = mu.single_def(defs, mu.origin_local(parent, defs, pl["l"]))
                    if bd is not None and bd[1] == "term" and bd[2].get("callee") and bd[2]["callee"]["def"].endswith("::Try>::branch") and \
                            bd[2]["args"] and mu.origin_local(parent, defs, mu.op_local(bd[2]["args"][0])) == pos_dest:
                        ok_ix = True
                break
            cur = pl["l"]
        if not ok_ix:
            return None, "removed index is not the Some payload of the position() result"
        rl = mu.op_local(rt["args"][0])
        rd = mu.single_def(defs, rl) if rl is not None else None
        if rd is None or rd[1] == "term" or rd[2].get("k") != "ref" or not rd[2]["mut"] or _vec_base(parent, defs, rd[2]["pl"]) != vec:
            return None, "remove receiver is not `&mut` of the vector position() ran over"
        info["borrow_block"] = rd[0]
        # Option<removed>: Some { remove result } on this path
        somes = [(bi, si, s1) for bi, si, s1 in mu.aggregates(parent, "option::Option", "Some")
                 if s1["rv"]["ops"] and mu.origin_local(parent, defs, mu.op_local(s1["rv"]["ops"][0])) == rt["dest"]["l"]]
        info["result"] = somes[0][2]["pl"]["l"] if len(somes) == 1 and not somes[0][2]["pl"]["p"] else None
    # nothing touches the vector between position() and the removal: the only `&mut vec` is the one feeding the removal,
    # and position() comes first
    # `&mut` references to the vector (directly, or reborrowed from a reference to it): between position() and the removal
    # only the one that feeds the removal may be created; earlier ones (e.g. the reference a helper received) are the same
    # borrow seen from outside
    dom = mu.dominators(parent)
    after_pos = []
    for bi, bl in enumerate(parent.blocks):
        if bl["cleanup"]:
            continue
        for s1 in bl["stmts"]:
            if s1["s"] == "assign" and s1["rv"]["k"] == "ref" and s1["rv"]["mut"] and _vec_base(parent, defs, s1["rv"]["pl"]) == vec:
                if pos_bi in dom[bi] and bi != pos_bi:
                    after_pos.append(bi)
    if after_pos != [info["borrow_block"]]:
        return None, "between position() and the removal the vector is borrowed mutably %d times" % len(after_pos)
    # and nothing that holds a `&mut` to it is called in between, except the removal itself (or the map that runs it)
    return info, None


@predicate("remove_at_position_of_same_vec")
def remove_at_position(ctx, body, ob):
    """`v.remove(i)` where i is what `v.iter().position(p)` returned for the very same vector, nothing mutating it in
    between - in the closure form (`.map(|i| v.remove(i))`) or the match form."""
    parent = ctx.prog.bodies.get(body.root) if body.kind == "Closure" else body
    if body.kind == "Closure":
        # the function that constructs the closure; when its defining function was a helper inlined into another function,
        # that other function (it is the one that is reachable and that the position() / map() calls now live in)
        import inline
        inv = inline.load_inventory(__import__("facts").VERIF)
        makers = [x for x in ctx.prog.bodies.values() if x.kind != "Closure" and any(
            s1["s"] == "assign" and s1["rv"]["k"] == "agg" and s1["rv"].get("def") == body.id for bl in x.blocks for s1 in bl["stmts"])]
        listed = [x for x in makers if x.qname in inv]
        if listed:
            parent = listed[0]
    if parent is None:
        return False, "enclosing function not found"
    info, why = find_lift(ctx, parent)
    if info is None:
        return False, why
    if info["remove_body"].id != body.id:
        return False, "the audited site is not the position()-indexed removal"
    return True, "index is the result of position() over the same vector (local _%d), not mutated in between" % info["vec"]


@predicate("opt_record_selected_by_type_code")
def opt_selected(ctx, body, ob):
    """unreachable!() in Header::extract_info_from_opt_rr: the record passed in was selected by
    `rdata.type_code() == TYPE::OPT`, type_code yields OPT only for RData::OPT (or a stored Empty(ty)),
    and the parser never builds RData::Empty(TYPE::OPT)."""
    prog, cg = ctx.prog, ctx.cg
    import inline
    inv = inline.load_inventory(__import__("facts").VERIF)
    # the standalone copy of a helper that has been inlined into its caller is not a caller of its own
    sites = [(c, x) for c, x in cg.callsites.get(body.id, []) if (prog.bodies.get(c.root, c).qname if c.kind == "Closure" else c.qname) in inv]
    callers = sorted(set(c.qname for c, _ in sites))
    if callers != ["simple_dns::Packet::parse"]:
        return False, "callers are %s, expected only Packet::parse" % callers
    parent = sites[0][0]
    # the argument is the record removed at the index position() found with the predicate `type_code() == TYPE::OPT`
    info, why = find_lift(ctx, parent)
    if info is None:
        return False, why
    c0 = info["pred"]
    tc = mu.calls(c0, r"RData::<'a>::type_code$|RData.*::type_code$")
    eqs = mu.calls(c0, r"TYPE as std::cmp::PartialEq>::(eq|ne)$")
    if len(tc) != 1 or len(eqs) != 1 or not eqs[0][1]["callee"]["def"].endswith("::eq"):
        return False, "selection closure is not `type_code() == <TYPE>`"
    pv = None
    for a in eqs[0][1]["args"]:
        d = None
        l = mu.op_local(a)
        if l is not None:
            dd = mu.single_def(mu.defs_of(c0), l)
            if dd is not None and dd[1] != "term" and dd[2].get("k") == "use":
                d = prog.promoted_value(dd[2]["op"])
            elif dd is not None and dd[1] != "term" and dd[2].get("k") == "ref":
                l2 = dd[2]["pl"]["l"]
                d2 = mu.single_def(mu.defs_of(c0), l2)
                if d2 is not None and d2[1] != "term" and d2[2].get("k") == "use":
                    d = prog.promoted_value(d2[2]["op"])
        pv = pv or d or prog.promoted_value(a)
    if pv is None or not pv[0].endswith("rdata::TYPE") or pv[1] != "OPT":
        return False, "selection closure compares with %s, not TYPE::OPT" % (pv,)
    defs = mu.defs_of(parent)
    ext = [t for _, t in mu.calls(parent, r"extract_info_from_opt_rr$")]
    if len(ext) != 1:
        return False, "expected one call of extract_info_from_opt_rr"
    arg = mu.origin_local(parent, defs, mu.op_local(ext[0]["args"][1]))
    if info.get("result") is None:
        return False, "cannot identify the Option holding the removed record"
    if arg != info["result"]:
        # match form: the argument local is assigned Some(removed) in one arm and None in the other
        ds = defs.get(arg, [])
        kinds = set()
        for (dbi, dsi, x) in ds:
            if dsi != "term" and x.get("k") == "agg" and x.get("vn") == "None":
                kinds.add("None")
            elif dsi != "term" and x.get("k") == "agg" and x.get("vn") == "Some" and x["ops"] and \
                    mu.origin_local(parent, defs, mu.op_local(x["ops"][0])) == info["remove"]["dest"]["l"]:
                kinds.add("Some(removed)")
            elif dsi != "term" and x.get("k") == "use" and mu.origin_local(parent, defs, mu.op_local(x["op"])) == info["result"]:
                kinds.add("Some(removed)")
            else:
                kinds.add("other")
        if "other" in kinds or "Some(removed)" not in kinds:
            return False, "the argument is not the record removed at the position() index (assigned from %s)" % sorted(kinds)
    # type_code(): TYPE::OPT is produced only in the arm of variant OPT; Empty(ty) returns the stored type
    tcb = prog.find("simple_dns::RData::type_code")
    if tcb is None:
        return False, "RData::type_code not found"
    opt_blocks = [bi for bi, si, s in mu.aggregates(tcb, "rdata::TYPE", "OPT")]
    sw = [(bi, bl["term"]) for bi, bl in enumerate(tcb.blocks) if bl["term"]["t"] == "switch" and not bl["cleanup"]]
    if len(sw) != 1 or len(opt_blocks) != 1:
        return False, "type_code is not a single switch table"
    adt = prog.adts.get("simple_dns::dns::rdata::RData")
    vi = [i for i, v in enumerate(adt["variants"]) if v["name"] == "OPT"][0]
    arms = {int(v): t for v, t in sw[0][1]["arms"]}
    if arms.get(vi) != opt_blocks[0] or list(arms.values()).count(opt_blocks[0]) != 1 or sw[0][1]["otherwise"] == opt_blocks[0]:
        return False, "TYPE::OPT is produced for a variant other than RData::OPT"
    # RData::Empty is built by the parser only when the type is not OPT
    rp = prog.find("simple_dns::<RData as WireFormat>::parse")
    if rp is None:
        return False, "RData::parse not found"
    empties = mu.aggregates(rp, "rdata::RData", "Empty")
    eqs = mu.calls(rp, r"TYPE as std::cmp::PartialEq>::eq$")
    if len(empties) == 1 and len(eqs) == 0:
        # `if let TYPE::OPT = ty` / `match ty { TYPE::OPT => .. }`: a switch on the discriminant of a TYPE value
        ebi = empties[0][0]
        rdefs = mu.defs_of(rp)
        tadt = prog.adts.get("simple_dns::dns::rdata::TYPE")
        oi = [i for i, v in enumerate(tadt["variants"]) if v["name"] == "OPT"][0] if tadt else None
        dom = mu.dominators(rp)
        for sbi, sbl in enumerate(rp.blocks):
            swt = sbl["term"]
            if sbl["cleanup"] or swt["t"] != "switch":
                continue
            d = mu.single_def(rdefs, mu.op_local(swt["discr"]) if mu.op_local(swt["discr"]) is not None else -1)
            if d is None or d[1] == "term" or d[2].get("k") != "discr" or not rp.ty(d[2]["pl"]["t"])["s"].endswith("rdata::TYPE"):
                continue
            opt_t = [tg for v, tg in swt["arms"] if int(v) == oi]
            if not opt_t or swt["otherwise"] == opt_t[0]:
                continue
            if sbi in dom[ebi] and ebi not in mu.reachable_from(rp, opt_t[0], avoid={sbi}):
                break
        else:
            return False, "RData::parse: no test of the type against TYPE::OPT keeps the Empty construction out of the OPT case"
        eqs = None
    elif len(empties) != 1 or len(eqs) != 1:
        return False, "RData::parse: expected one Empty construction and one TYPE comparison"
    if eqs is None:
        pass
    else:
      ebi = empties[0][0]
      eq_bi, eq_t = eqs[0]
      pv = None
      rdefs = mu.defs_of(rp)
      for a in eq_t["args"]:
          l = mu.op_local(a)
          for st in mu.trace_back(rp, rdefs, l):
              if st[2] != "term" and st[3].get("k") == "use":
                  pv = pv or prog.promoted_value(st[3]["op"])
      if pv is None or pv[1] != "OPT":
          return False, "RData::parse does not compare the type with TYPE::OPT"
      swb = eq_t["target"]
      swt = rp.blocks[swb]["term"]
      if swt["t"] != "switch":
          return False, "comparison result is not branched on"
      false_t = [t for v, t in swt["arms"] if int(v) == 0]
      true_t = swt["otherwise"]
      if not false_t:
          return False, "unexpected branch shape"
      dom = mu.dominators(rp)
      if swb not in dom[ebi] or ebi in mu.reachable_from(rp, true_t):
          return False, "Empty can be constructed when the type is OPT"
    # no other constructor of RData::Empty under Packet::parse except field-for-field copies
    reach = cg.reachable([parent.id])
    others = []
    for bid in reach:
        ob2 = prog.bodies[bid]
        if ob2.id == rp.id or ob2.name in ("into_owned", "clone"):
            continue
        if mu.aggregates(ob2, "rdata::RData", "Empty"):
            others.append(ob2.qname)
    if others:
        return False, "RData::Empty also constructed in %s" % others
    return True, "selected by type_code()==OPT; type_code gives OPT only for RData::OPT; Empty is built only on the type!=OPT edge"


def _family(ctx, body):
    root_id = body.root if body.kind in ("Closure",) else body.id
    # async fn: the coroutine is a closure under the fn; select! adds nested closures
    top = ctx.prog.bodies.get(root_id, body)
    return [b for b in ctx.prog.bodies.values() if b.id == top.id or b.id.startswith(top.id + "::")]


def _places_equal(a, b):
    return a["l"] == b["l"] and a["p"] == b["p"]


def _u8_array_len(b, tix, depth=0):
    t = b.ty(tix)
    while t["k"] in ("ref", "ptr") and depth < 4:
        t = b.ty(t["t"])
        depth += 1
    if t["k"] == "array" and b.ty(t["t"])["s"] == "u8":
        return t["n"]
    return None


@predicate("recv_count_indexes_recv_buffer")
def recv_count(ctx, body, ob):
    """`buf[..count]` where (count, addr) is the Ok payload of recv_from(&mut buf): recv_from never reports more
    bytes than the buffer holds.  Checked structurally: the index flows, through moves and field projections only,
    from a value of type (usize, SocketAddr); every recv_from in the function (and its closures) receives a buffer
    backed by a [u8; N] array of the same N as the indexed array; no (usize, SocketAddr) tuple is built by hand."""
    t = body.blocks[ob.bi]["term"]
    if t["t"] != "call" or len(t["args"]) != 2:
        return False, "site is not an index call"
    n_idx = _u8_array_len(body, t["args"][0]["pl"]["t"]) if t["args"][0]["o"] in ("copy", "move") else None
    if n_idx is None:
        return False, "indexed value is not a [u8; N] array"
    # the range operand: RangeTo { count }
    defs = mu.defs_of(body)
    rl = mu.op_local(t["args"][1])
    rd = mu.single_def(defs, rl) if rl is not None else None
    if rd is None or rd[1] == "term" or rd[2].get("k") != "agg" or not rd[2].get("adt", "").endswith("RangeTo"):
        return False, "index is not `..count`"
    cur_op = rd[2]["ops"][0]
    ok_src = False
    for _ in range(12):
        if cur_op["o"] not in ("copy", "move"):
            break
        pl = cur_op["pl"]
        if body.ty(pl["t"])["s"] != "usize":
            break
        if pl["p"]:
            # field projection: which aggregate does it come out of?
            base_t = body.local_ty(pl["l"])["s"] if len(pl["p"]) == 1 else None
            last = pl["p"][-1]
            if isinstance(last, dict) and last.get("f") == 0 and len(pl["p"]) == 1 and base_t == "(usize, std::net::SocketAddr)":
                ok_src = True
                break
            # a saved local of the coroutine: find the assignments to the same place
            srcs = []
            for b2 in [body]:
                for bl in b2.blocks:
                    if bl["cleanup"]:
                        continue
                    for s in bl["stmts"]:
                        if s["s"] == "assign" and _places_equal(s["pl"], pl):
                            srcs.append(s["rv"])
            if len(srcs) != 1 or srcs[0]["k"] != "use":
                break
            cur_op = srcs[0]["op"]
            continue
        d = mu.single_def(defs, pl["l"])
        if d is None or d[1] == "term" or d[2].get("k") != "use":
            break
        cur_op = d[2]["op"]
    if not ok_src:
        return False, "count does not come (by moves only) from the first field of a (usize, SocketAddr) value"
    fam = _family(ctx, body)
    n_recv = 0
    for b2 in fam:
        for bl in b2.blocks:
            if bl["cleanup"]:
                continue
            for s in bl["stmts"]:
                if s["s"] == "assign" and s["rv"]["k"] == "agg" and s["rv"]["ak"] == "tuple" and \
                        b2.ty(s["pl"]["t"])["s"] == "(usize, std::net::SocketAddr)":
                    return False, "a (usize, SocketAddr) tuple is constructed by hand in %s" % b2.qname
        d2 = mu.defs_of(b2)
        for bi2, t2 in mu.calls(b2, r"::UdpSocket::(recv_from|recv|peek_from)$"):
            n_recv += 1
            # buffer argument -> array type
            a = t2["args"][1]
            n_buf = None
            cur = mu.op_local(a)
            for _ in range(8):
                if cur is None:
                    break
                dd = mu.single_def(d2, cur)
                if dd is None:
                    break
                if dd[1] == "term":
                    # &mut buf[..]  (IndexMut on the array)
                    tt = dd[2]
                    if tt["callee"] and "IndexMut" in tt["callee"]["def"] and tt["args"][0]["o"] in ("copy", "move"):
                        n_buf = _u8_array_len(b2, tt["args"][0]["pl"]["t"])
                    break
                rv = dd[2]
                if rv["k"] == "cast" and rv["op"]["o"] in ("copy", "move"):
                    n_buf = _u8_array_len(b2, rv["op"]["pl"]["t"])
                    if n_buf is not None:
                        break
                    cur = mu.op_local(rv["op"])
                elif rv["k"] == "ref":
                    n_buf = _u8_array_len(b2, rv["pl"]["t"])
                    if n_buf is not None and rv["pl"]["p"] and rv["pl"]["p"][-1] == "d" and False:
                        pass
                    if n_buf is not None and b2.ty(rv["pl"]["t"])["k"] == "array":
                        break
                    n_buf = None
                    cur = rv["pl"]["l"] if not [p for p in rv["pl"]["p"] if p != "d"] else None
                elif rv["k"] == "use":
                    cur = mu.op_local(rv["op"])
                else:
                    break
            if n_buf is None:
                return False, "cannot identify the buffer passed to recv_from in %s" % b2.qname
            if n_buf > n_idx:
                return False, "recv_from fills a %d-byte buffer but a %d-byte array is indexed" % (n_buf, n_idx)
    if n_recv == 0:
        return False, "no recv_from call in the function"
    return True, "count is the byte count of recv_from into a buffer no larger than the indexed [u8; %d] (%d recv_from call(s))" % (n_idx, n_recv)
