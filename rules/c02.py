"""C02 Build then parse returns the same packet (mirror clause: writer and reader of each wire element agree)."""
import re
from common import Report, Violation
import layout
import c10
import mirutil as mu

SKIP = {
    "Name": "variable-length label loop with compression pointers: decoding is C06, the compressed/plain writers are C03",
    "RData": "dispatch on TYPE: the per-variant pairing is C18-R3 / C04-R1",
    "Packet": "section order is C04-R2 and C05-R4",
}


def viol(report, rule, what, kind, msg, where="-"):
    report.violate(Violation(report.key(what, rule, kind, ""), where, rule, "%s: %s" % (rule, msg)))


def bit_consts(b):
    """(op, constant) for the bit operations with a constant operand in a body"""
    out = []
    for bl in b.blocks:
        if bl["cleanup"]:
            continue
        for s in bl["stmts"]:
            if s["s"] == "assign" and s["rv"]["k"] == "bin" and s["rv"]["op"] in ("BitAnd", "BitOr", "BitXor", "Eq", "Ne"):
                for side in ("a", "b"):
                    o = s["rv"][side]
                    if o["o"] == "const" and o["k"]["c"] == "int":
                        out.append((s["rv"]["op"], int(o["k"]["v"])))
            if s["s"] == "assign" and s["rv"]["k"] == "un" and s["rv"]["op"] == "Not" and s["rv"]["a"]["o"] == "const":
                out.append(("Not", int(s["rv"]["a"]["k"]["v"])))
    return out


def run(ctx):
    prog, W = ctx.prog, ctx.whole
    report = Report("C02", ctx, "R1 for every WireFormat impl the consume sequence of parse (kinds, widths, byte order, fixed offsets, "
                    "destination fields) equals the emit sequence of write_to (kinds, widths, byte order, source fields), item by item; "
                    "tag constants written equal the values the parser tests; R2 the cache-flush / unicast-response bit is or-ed on "
                    "write with the mask that parse tests and strips; R3 for every header a caller can assemble (each named opcode x "
                    "each named rcode below 16 x each subset of the seven flag bits) the flags word produced by Header::get_flags is "
                    "accepted by Header::parse and decodes to the same opcode, rcode and flags (decision tables evaluated from MIR).")
    pbs = {b.impl["self_s"].split("::")[-1].split("<")[0]: b for b in prog.method_bodies("wire_format::WireFormat", "parse")}
    wbs = {b.impl["self_s"].split("::")[-1].split("<")[0]: b for b in prog.method_bodies("wire_format::WireFormat", "write_to")}
    report.floor("WireFormat impls", len(pbs), 47)
    skipped = []
    for tn in sorted(pbs):
        pb, wb = pbs[tn], wbs.get(tn)
        report.count()
        if wb is None:
            viol(report, "C02-R1", tn, "no-writer", "%s has parse but no write_to" % tn)
            continue
        if tn in SKIP:
            skipped.append({"type": tn, "reason": SKIP[tn]})
            continue
        if tn == "IPSECKEY":
            c10.check_ipseckey(ctx, report, pb, wb)
            continue
        pseq, gaps = layout.parse_sequence_clean(ctx, W.results[pb.id])
        wseq = layout.write_sequence_inlined(ctx, W.results[wb.id])
        pn = layout.normalise(pseq, "parse", mirror=True)
        wn = layout.normalise(wseq, "write", mirror=True)
        if tn == "OPT":
            pn = [x for x in pn if not x.startswith(("u16:udp_packet_size", "u32"))]
        if tn == "TXT":
            wn = [x for x in wn if x != "bytes1"]
        if tn == "ResourceRecord":
            ok, why, pn, wn = envelope(ctx, pbs, wbs)
            if not ok:
                viol(report, "C02-R1", tn, "envelope", why, "%s:%d" % (pb.file, pb.line))
                continue
        if tn == "NULL":
            pn = [("rest:data" if x == "rest" else x) for x in pn]
        if gaps and tn != "ResourceRecord":
            viol(report, "C02-R1", tn, "gap", "%s::parse does not read its fixed fields contiguously (%s) while write_to emits them back to back" % (
                tn, "; ".join(gaps[:3])), "%s:%d" % (pb.file, pb.line))
            continue
        unstored = [(x, y) for x, y in zip(pn, wn) if re.match(r"^[ui]\d+", x) and re.match(r"^[ui]\d+", y) and (":" in x) != (":" in y)] \
            if layout.seq_match(pn, wn) else []
        if unstored:
            x, y = unstored[0]
            viol(report, "C02-R1", tn, "value-changed", "%s: the integer %s is %s: one side transforms the value (clamp / mask / arithmetic) "
                 "that the other side passes through unchanged, so it does not survive build-then-parse (parse [%s], write_to [%s])" % (
                     tn, y if ":" in y else x,
                     "written from that field but the value parsed is not stored in it unchanged" if ":" in y else
                     "stored in that field by parse but write_to emits a value computed from it",
                     " ".join(pn), " ".join(wn)), "%s:%d" % (pb.file, pb.line))
        elif layout.seq_match(pn, wn):
            report.nontriv("mirror:" + tn)
            report.sample({"type": tn, "parse": " ".join(pn), "write_to": " ".join(wn)}, cap=8)
        else:
            viol(report, "C02-R1", tn, "mirror", "%s: parse consumes [%s] but write_to emits [%s]: reader and writer of this wire element "
                 "are not mirror images" % (tn, " ".join(pn), " ".join(wn)), "%s:%d" % (wb.file, wb.line))
    report.extra["not_compared_here"] = skipped
    # ---- R2 flag bits
    for tn, helper in (("ResourceRecord", "simple_dns::ResourceRecord::write_common"), ("Question", "simple_dns::Question::write_common")):
        # the shared writer, or - when it has been merged into something else - the writer entry point itself (whatever
        # replaced the helper has been inlined back into it)
        wcb = ctx.prog.find(helper) or wbs.get(tn)
        if wcb is None:
            report.lost_anchor(helper)
        pb = pbs.get(tn)
        report.count()
        if wcb is None or pb is None:
            continue
        wc = bit_consts(wcb)
        pc = bit_consts(pb)
        ors = sorted(set(c for op, c in wc if op == "BitOr"))
        ands = sorted(set(c for op, c in pc if op == "BitAnd"))
        nots = sorted(set(c for op, c in pc if op == "Not"))
        eqs = sorted(set(c for op, c in pc if op in ("Eq", "Ne")))
        strip_ok = (0x7FFF in ands) or (0x8000 in nots)
        # the test of the bit: `x & 0x8000 == 0x8000` or `x & 0x8000 != 0` (either polarity of the comparison)
        test_ok = 0x8000 in ands and (("Eq", 0x8000) in pc or ("Ne", 0) in pc) and ("Ne", 0x8000) not in pc and ("Eq", 0) not in pc
        if ors == [0x8000] and test_ok and strip_ok:
            report.nontriv("flagbit:" + tn)
            report.sample({"type": tn, "written": "class | 0x8000", "tested": "class & 0x8000 == 0x8000", "stripped": "class & 0x7FFF"})
        else:
            viol(report, "C02-R2", tn, "flag-bit", "%s: the top bit of the class field is written with |%s but parsed with &%s (tested ==%s, "
                 "inverted masks %s); both sides must use 0x8000 and strip with 0x7FFF" % (
                     tn, [hex(x) for x in ors], [hex(x) for x in ands], [hex(x) for x in eqs], [hex(x) for x in nots]),
                 "%s:%d" % (wcb.file, wcb.line))
    class_word_rule(ctx, report)
    header_round_trip(ctx, report)
    report.assumptions += ["equality of values for all packets is not decided (symmetric mistakes are C10's schema check); "
                           "value-dependent behaviour (SVCB BTreeMap order, TXT cached size, empty TXT) is outside a layout argument"]
    return report.finish()


def class_word_rule(ctx, report, rule="C02-R2", only_opt=False):
    """C02-R2 (values): on every successful path of Question::write_common / ResourceRecord::write_common the 16-bit word written
    after the type is  class code | 0x8000 iff the unicast-response / cache-flush flag is set, for every class value"""
    from tables import Evaluator, EnumVal, Opaque, NotATable, Extractor
    prog = ctx.prog
    write_all_ok = lambda vals: EnumVal("Result", "Ok", [0])
    hooks = {("call", "std::io::Write::write_all"): write_all_ok}
    cadt = prog.adts.get("simple_dns::dns::CLASS")
    qadt = prog.adts.get("simple_dns::dns::QCLASS")
    radt = prog.adts.get("simple_dns::dns::rdata::RData")
    if cadt is None or qadt is None or radt is None:
        report.lost_anchor("CLASS / QCLASS / RData definitions")
        return
    classes = [(v["name"], int(v["discr"])) for v in cadt["variants"]]
    a_ix = [i for i, v in enumerate(radt["variants"]) if v["name"] == "A"][0]
    cases = []
    qb = prog.find("simple_dns::Question::write_common") or prog.find("simple_dns::<Question as WireFormat>::write_to")
    rb = prog.find("simple_dns::ResourceRecord::write_common") or prog.find("simple_dns::<ResourceRecord as WireFormat>::write_to")
    if qb is not None:
        qvals = [(EnumVal("QCLASS", "CLASS", [EnumVal("CLASS", n)]), c, "CLASS(%s)" % n) for n, c in classes]
        for v in qadt["variants"]:
            if v["name"] != "CLASS":
                qvals.append((EnumVal("QCLASS", v["name"]), {"ANY": 255, "NONE": 254}.get(v["name"]), v["name"]))
        for val, code, label in qvals:
            for flag in (0, 1):
                cases.append((qb, {"qclass": val, "qtype": EnumVal("QTYPE", "ANY"), "unicast_response": flag, "qname": Opaque("qname")},
                              code, flag, "Question", "qclass %s, unicast_response %d" % (label, flag)))
    if rb is not None:
        for n, c in classes:
            for flag in (0, 1):
                cases.append((rb, {"class": EnumVal("CLASS", n), "cache_flush": flag, "ttl": 300, "name": Opaque("name"),
                                   "rdata": EnumVal("RData", "A", [Opaque("a")])},
                              c, flag, "ResourceRecord", "class %s, cache_flush %d" % (n, flag)))
        # the OPT pseudo-record carries the sender's UDP payload size in the CLASS slot, all 16 bits of it (RFC 6891 6.1.2): zero, every
        # single bit, all ones and two common sizes stand for the 65536 values (a mask, a shift or a clamp shows on one of them)
        if any(v["name"] == "OPT" for v in radt["variants"]):
            for size in [0, 0xFFFF, 1232, 4096] + [1 << i for i in range(16)]:
                cases.append((rb, {"class": EnumVal("CLASS", "IN"), "cache_flush": 0, "ttl": 0, "name": Opaque("name"),
                                   "rdata": EnumVal("RData", "OPT", [{"udp_packet_size": size, "version": 0, "opt_codes": Opaque("codes")}])},
                              size, 0, "ResourceRecord", "the OPT record with udp_packet_size %d" % size))
    if only_opt:
        cases = [c for c in cases if "OPT record" in c[5]]
    bad = []
    n = 0
    try:
        tables_cache = {}
        for body, selfv, code, flag, tn, label in cases:
            if code is None:
                continue
            if body.id not in tables_cache:
                ex = Extractor(prog, body)
                tables_cache[body.id] = (ex.run(), ex.leaf_effects)
            leaves, effects = tables_cache[body.id]
            ev = Evaluator(prog, hooks)
            args = [selfv, Opaque("out")]
            words = None
            for (conds, res), eff in zip(leaves, effects):
                if any(c[0] == "err" for c in conds):
                    continue
                if not ev.conds_hold(conds, args):
                    continue
                words = [ev.term(a[0], args) for nm, a in eff if nm.endswith("::to_be_bytes") and a]
                break
            n += 1
            if words is None or len(words) < 2:
                bad.append("%s::write_common (%s): cannot evaluate the words written (%r)" % (tn, label, words))
                continue
            want = code | (0x8000 if flag else 0)
            # the class word is the second 16-bit word written (after the type)
            if words[1] != want:
                bad.append("%s::write_common writes %s as class word %s; required %#06x (the flag is the top bit, the class the rest)" % (
                    tn, label, ("%#06x" % words[1]) if isinstance(words[1], int) else repr(words[1]), want))
    except NotATable as e:
        bad.append("write_common is no longer a loop-free decision table: %s" % e)
    report.count(n)
    report.extra["class_word_cases"] = n
    if not bad and n:
        report.nontriv("class word values")
        report.sample({"rule": rule, "domain": "%d (class, flag) combinations" % n, "result": "class word = class | 0x8000 iff flag"})
    for m in bad[:4]:
        viol(report, rule, "write_common", "class-word", m)


def header_round_trip(ctx, report):
    """C02-R3: write-then-parse of the flags word, over every header the public API can assemble"""
    from common import load_tsv
    from tables import Evaluator, EnumVal, NotATable
    from hdrmodel import Header12
    prog = ctx.prog
    rfc = {r[0]: int(r[1], 16) for r in load_tsv("header.tsv")}
    flag_names = ["RESPONSE", "AUTHORITATIVE_ANSWER", "TRUNCATION", "RECURSION_DESIRED", "RECURSION_AVAILABLE", "AUTHENTIC_DATA",
                  "CHECKING_DISABLED"]
    # the flag constants as the code defines them (a caller can only set these)
    code_flags = {}
    for k in prog.consts.values():
        if k["crate"] == "simple_dns" and k["v"] is not None and k["name"] in flag_names and "PacketFlag" in k["def"]:
            code_flags[k["name"]] = int(k["v"])
    report.floor("PacketFlag constants", len(code_flags), 7)
    hp = ctx.must_find(report, "simple_dns::Header::parse")
    gf = ctx.must_find(report, "simple_dns::Header::get_flags")
    if hp is None or gf is None or len(code_flags) < 7:
        return
    all_flags = 0
    for v in code_flags.values():
        all_flags |= v
    bits = sorted(code_flags.values())
    oadt = prog.adts["simple_dns::dns::OPCODE"]
    radt = prog.adts["simple_dns::dns::RCODE"]
    ops = [v["name"] for v in oadt["variants"] if v["name"] != "Reserved"]
    rcs = [v["name"] for v in radt["variants"] if v["name"] != "Reserved" and int(v["discr"]) < 16]
    report.floor("named opcodes", len(ops), 4)
    report.floor("named rcodes below 16", len(rcs), 11)
    bad = []
    n = 0
    try:
        for op in ops:
            for rc in rcs:
                for sub in range(1 << len(bits)):
                    z = 0
                    for i, b in enumerate(bits):
                        if sub >> i & 1:
                            z |= b
                    hdr = {"id": 0xBEEF, "opcode": EnumVal("OPCODE", op), "response_code": EnumVal("RCODE", rc), "z_flags": z,
                           "opt": EnumVal("Option", "None")}
                    m = Header12({}, all_flags)
                    w = Evaluator(prog, m.hooks()).call(gf, [hdr])
                    n += 1
                    if not isinstance(w, int):
                        bad.append("Header::get_flags(%s, %s, flags %#06x) is not a plain word (%r)" % (op, rc, z, w))
                        break
                    words = {(0, 2): 0xBEEF, (2, 4): w, (4, 6): 0, (6, 8): 0, (8, 10): 0, (10, 12): 0}
                    m2 = Header12(words, all_flags)
                    r = Evaluator(prog, m2.hooks()).call(hp, [("data",)])
                    if not (isinstance(r, EnumVal) and r.v == "Ok"):
                        bad.append("a header with opcode %s, rcode %s and flags %#06x is written as %#06x, which Header::parse rejects (%r)" % (
                            op, rc, z, w, r))
                    else:
                        f = dict(zip(["id", "opcode", "response_code", "z_flags", "opt"], r.f[0].f))
                        if f["opcode"] != hdr["opcode"] or f["response_code"] != hdr["response_code"] or f["z_flags"] != z or f["id"] != 0xBEEF:
                            bad.append("a header with opcode %s, rcode %s and flags %#06x is written as %#06x and parsed back as opcode %r, "
                                       "rcode %r, flags %r" % (op, rc, z, w, f["opcode"], f["response_code"], f["z_flags"]))
                    if len(bad) > 6:
                        raise StopIteration
    except StopIteration:
        pass
    except NotATable as e:
        bad.append("Header::get_flags / Header::parse is no longer a loop-free decision table: %s" % e)
    report.count(n)
    report.extra["header_round_trips_evaluated"] = n
    if not bad:
        report.nontriv("header round trip")
        report.sample({"rule": "C02-R3", "domain": "%d opcodes x %d rcodes x %d flag subsets" % (len(ops), len(rcs), 1 << len(bits)),
                       "result": "every written flags word parses back to the same opcode / rcode / flags"})
    for msg in bad[:4]:
        viol(report, "C02-R3", "Header", "round-trip", msg)


def envelope(ctx, pbs, wbs):
    """the fixed part of a resource record is read by ResourceRecord::parse (class, ttl) and RData::parse (type, rdlength)"""
    W = ctx.whole
    rr, rd = pbs["ResourceRecord"], pbs["RData"]
    a1, a2 = W.results[rr.id], W.results[rd.id]
    calls = [e for e in a1.events if e.get("callee") and "Name" in e["callee"]["def"] and e["callee"]["name"] == "parse"]
    if len(calls) != 1 or not calls[0].get("cursor"):
        return False, "ResourceRecord::parse does not start with one Name::parse", [], []
    after = calls[0]["cursor"][2]
    items = []
    fm = layout.fields_of_ok(a1)
    for r in a1.reads:
        d = r["off"] - after
        if r["root"] == "_1" and d.is_const():
            items.append((d.c, r["width"], fm.get(r["sym"]) or fm.get(a1.derived.get(r["sym"]) and "") or ""))
    from lin import Lin
    entry = Lin.sym("(*_2)@entry")
    for r in a2.reads:
        d = r["off"] - entry
        if r["root"] == "_1" and d.is_const():
            items.append((d.c, r["width"], ""))
    items.sort()
    pos = 0
    for c, w, f in items:
        if c != pos:
            return False, "the record header is read at +%d where +%d is expected (reads: %s)" % (c, pos, items), [], []
        pos = c + w
    pn = ["name:name"] + ["u%d%s" % (w * 8, (":" + f) if f else "") for c, w, f in items] + ["sub:RData"]
    # the writer branches on the record being the OPT pseudo-record (CLASS slot = UDP size, C09): compare the ordinary arm
    wb = wbs["ResourceRecord"]
    radt = ctx.prog.adts["simple_dns::dns::rdata::RData"]
    a_ix = [i for i, v in enumerate(radt["variants"]) if v["name"] == "A"][0]
    helper = ctx.prog.find("simple_dns::ResourceRecord::write_common")
    han = layout.analyse(ctx, helper, {"(*_1).rdata": a_ix})
    saved = W.results[helper.id]
    W.results[helper.id] = han
    try:
        wn = layout.normalise(layout.write_sequence_inlined(ctx, W.results[wb.id]), "write", mirror=True)
    finally:
        W.results[helper.id] = saved
    wn = [re.sub(r"^(u16):rdata$", r"\1", x) for x in wn]
    return True, "", pn, wn
