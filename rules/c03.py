"""C03 Name compression is transparent (structure of the compressed writers)."""
from common import Report, Violation
from lin import Lin, entails
import compress
import layout
import mirutil as mu
import loops


def viol(report, rule, what, kind, msg, where="-"):
    report.violate(Violation(report.key(what, rule, kind, ""), where, rule, "%s: %s" % (rule, msg)))


def one_table(ctx, report, pw, rule):
    """the table of names already written is created once per message, in Packet::write_compressed_to: a table per section or per
    record forgets the names written before it, and a repeated name is then written in full"""
    prog = ctx.prog
    news = []
    for b in prog.bodies.values():
        if b.crate != "simple_dns" or b.kind == "Promoted":
            continue
        for bi, t in mu.calls(b, r"^(std::collections::HashMap::<K, V>::(new|with_capacity)|std::default::Default::default)$"):
            dt = b.ty(t["dest"]["t"])["s"]
            if "Label" in dt and "HashMap<" in dt and not b.blocks[bi]["cleanup"]:
                lps, _irr, _dom = loops.natural_loops(b)
                news.append(b.qname + (" (inside a loop)" if any(bi in info["body"] for info in lps.values()) else ""))
    report.count()
    if news != [pw.qname]:
        viol(report, rule, "name_refs", "table-creation", "compression tables are created in %s; exactly one per message, in "
             "Packet::write_compressed_to, is required" % news)
    else:
        report.nontriv("one table")


def run(ctx):
    prog = ctx.prog
    prog, W = ctx.prog, ctx.whole
    report = Report("C03", ctx, "R1 every write_compressed_to emits the same wire elements in the same order as the type's write_to, names "
                    "being the only items allowed to go through the compressing writer; Name::compress_append writes, per label, either "
                    "one 2-byte big-endian pointer and returns, or the same length byte + bytes as plain_append, then the root byte; R2 one "
                    "table: HashMap::new only in Packet::write_compressed_to and every nested call passes the caller's own name_refs; "
                    "R3 every offset recorded in the table is <= 0x3FFF, so value | 0xC000 is a well-formed pointer for messages of any "
                    "size; R4 the RDLENGTH back-patch uses the captured positions (C04-R6).")
    seqs = compress.compressed_sequences(ctx)
    n_over = 0
    for tn, (plain, comp, b, cb) in sorted(seqs.items()):
        if comp is None or tn == "RData":
            continue        # RData only dispatches to the variant's writer (C18-R3 / C04-R1 cover the pairing)
        if tn == "Name" and (prog.absorbed.get("simple_dns::Name::compress_append") or prog.absorbed.get("simple_dns::Name::plain_append")):
            continue        # the label writers live in Name's own write_to / write_compressed_to now: compared below, label by label
        if tn == "ResourceRecord" and comp[-3:] == ["bytes2", "~sub:RData", "u16"]:
            # RDLENGTH is written as a 2-byte placeholder and patched after the RDATA (positions checked by C04-R6)
            comp = comp[:-3] + ["u16", "~sub:RData"]
        n_over += 1
        report.count()
        same = len(plain) == len(comp) and all(layout.items_match(p, c.lstrip("~")) for p, c in zip(plain, comp))
        # only names, and containers that hold names (sub:...), may go through the compressing writer
        only_names = all(not c.startswith("~") or c.startswith("~name") or c.startswith("~sub:") or c.startswith("~cstr") for c in comp)
        if same and only_names:
            report.nontriv("sibling:" + tn)
            report.sample({"type": tn, "write_to": " ".join(plain), "write_compressed_to": " ".join(comp)}, cap=8)
        else:
            viol(report, "C03-R1", tn, "sibling", "%s: write_to emits [%s] but write_compressed_to emits [%s]; apart from names going through the "
                 "compressing writer the two must be identical" % (tn, " ".join(plain), " ".join(comp)), "%s:%d" % (cb.file, cb.line))
    report.floor("write_compressed_to overrides compared with write_to", n_over, 20)
    # ---- compress_append vs plain_append
    ca = ctx.must_find(report, "simple_dns::Name::compress_append")
    pa = ctx.must_find(report, "simple_dns::Name::plain_append")
    pw = ctx.must_find(report, "simple_dns::Packet::write_compressed_to")
    if None in (ca, pa, pw):
        return report.finish()
    aca, apa = W.results[ca.id], W.results[pa.id]
    pseq = layout.describe_write(ctx, apa)
    cseq = layout.describe_write(ctx, aca)
    report.count()
    # plain: rep{u8 raw} + root byte ; compressed: rep{u8 raw  |  u16 pointer} + root byte
    plain_ok = [x.split(":")[0] for x in pseq] in (["bytes1", "rep{u8 raw}"], ["rep{u8 raw}", "bytes1"])
    comp_loop = [x for x in cseq if x.startswith("rep{")]
    comp_ok = len(comp_loop) == 1 and sorted(comp_loop[0][4:-1].split()) == sorted(["u8", "raw"]) and \
        sorted(x.split(":")[0] for x in cseq if not x.startswith("rep{")) == ["bytes1", "u16"]
    if plain_ok and comp_ok:
        # the pointer write must be followed by a return (no further bytes for this name)
        ptr = [e for e in aca.emits if e["kind"] == "bytes" and e["src"][0] == "int" and e["src"][2] == 2]
        okret = False
        if len(ptr) == 1 and ptr[0]["src"][1] == "BE":
            # on the paths the analysis follows from the pointer write (its own partition: inside a closure that reports "the
            # rest is taken care of", the caller's test of that answer is decided) nothing more is written and the loop is left
            pbi = ptr[0]["bi"]
            if getattr(aca, "node_edges", None):
                after = aca.blocks_reachable(pbi) - {pbi}
            else:
                after = mu.reachable_from(ca, ca.blocks[pbi]["term"]["target"])
            lps, irr, dom = loops.natural_loops(ca)
            okret = not any(e["bi"] in after for e in aca.emits) and not any(h in after for h in lps) and len(lps) == 1
        if okret:
            report.nontriv("compress_append shape")
            report.sample({"fn": ca.qname, "per_label": "pointer(u16 BE) then return | length byte + label bytes", "tail": "root byte"})
        else:
            viol(report, "C03-R1", "Name::compress_append", "pointer-return", "after writing a compression pointer compress_append must return: "
                 "bytes following a pointer make the name longer than its plain form and unparseable", "%s:%d" % (ca.file, ca.line))
    else:
        viol(report, "C03-R1", "Name::compress_append", "shape", "compress_append emits %s and plain_append %s; expected per label "
             "`u16 pointer | u8 length + bytes` and a final root byte" % (cseq, pseq), "%s:%d" % (ca.file, ca.line))
    # ---- R2 one table
    one_table(ctx, report, pw, "C03-R2")
    n, bad = compress.name_refs_flow(ctx)
    report.count(n)
    report.floor("nested compressed writes", n, 20)
    for b, msg in bad:
        viol(report, "C03-R2", b.qname, "table-flow", "%s: %s" % (b.qname, msg), "%s:%d" % (b.file, b.line))
    if not bad:
        report.nontriv("table flow")
    # ---- R3 14-bit bound on recorded offsets
    import compress as _compress
    tins = _compress.table_insertions(aca)
    ins = [x[0] for x in tins]
    report.count()
    if len(ins) != 1:
        viol(report, "C03-R3", "Name::compress_append", "insert", "expected exactly one insertion into the compression table (found %d)" % len(ins))
    else:
        st = ins[0]["st"]
        val = tins[0][1]
        if val is not None and len(val.t) == 1 and val.t[0][0] in aca.derived:
            wide = aca.derived[val.t[0][0]]
        else:
            wide = val
        okb = False
        for cand in (val, wide):
            if cand is not None and entails(st.facts, aca.iv, cand - 0x3FFF, aca.depth):
                okb = True
        if okb:
            report.nontriv("14-bit")
            report.sample({"rule": "R3", "site": ins[0]["sp"].get("sn"), "entailed": "recorded offset <= 0x3FFF"})
        else:
            viol(report, "C03-R3", "Name::compress_append", "offset-bound", "the offset recorded for a name suffix (%s) has no bound by 0x3FFF: in a "
                 "message larger than 16 KiB a name first written at offset >= 16384 is later referenced as `offset as u16 | 0xC000`, a pointer "
                 "to a different place" % (wide,), "%s:%d" % (ca.file, ca.line))
    report.assumptions += ["A-SEEK", "that the parse of both outputs is equal for all packets is not decided (value-level); `never longer` "
                           "follows from R1: a pointer (2 bytes) replaces a suffix of at least 2 bytes (one label + root)"]
    return report.finish()
