"""C12 Inspecting parsed data never panics."""
from common import Report, Violation, where_of
import panicrule
import mirutil as mu

INSPECT_TRAITS = ("std::fmt::Debug", "std::fmt::Display", "std::clone::Clone", "std::hash::Hash", "std::cmp::PartialEq",
                  "std::cmp::Eq", "std::cmp::PartialOrd", "std::cmp::Ord")
NAMED = [
    "simple_dns::TXT::attributes", "simple_dns::TXT::long_attributes",
    "simple_dns::<String as TryFrom<TXT>>::try_from", "simple_dns::<String as TryFrom<CharacterString>>::try_from",
    "simple_dns::ResourceRecord::match_qtype", "simple_dns::ResourceRecord::match_qclass",
    "simple_dns::Name::is_subdomain_of", "simple_dns::Name::without", "simple_dns::Name::is_link_local",
    "simple_dns::Name::iter", "simple_dns::Name::get_labels",
]


def roots(ctx, report):
    prog = ctx.prog
    rs = []
    n_impl = 0
    for b in prog.bodies.values():
        if b.crate != "simple_dns" or b.kind != "AssocFn" and b.kind != "Fn":
            continue
        if b.impl and b.impl["trait"] in INSPECT_TRAITS:
            rs.append(b)
            n_impl += 1
        elif b.name == "into_owned":
            rs.append(b)
    n_owned = len([b for b in rs if b.name == "into_owned"])
    report.floor("Debug/Display/Clone/Hash/PartialEq impl methods", n_impl, 150)
    report.floor("into_owned functions", n_owned, 45)
    for q in NAMED:
        b = ctx.must_find(report, q)
        if b is not None:
            rs.append(b)
    return sorted(set(rs), key=lambda b: b.qname)


def fmt_err_rule(ctx, report, reach, rule):
    """R2: an fmt::Error may only be propagated from the Formatter, never constructed: to_string()/format!/{:?} of an
    enclosing value panic when a Display/Debug impl returns Err on its own."""
    prog = ctx.prog
    n = 0
    for bid in sorted(reach):
        b = prog.bodies[bid]
        for bi, si, s in mu.aggregates(b, "fmt::Error"):
            n += 1
            key = report.key(b.qname, rule, "constructs-fmt-error", s["sp"].get("sn") or "Error")
            report.violate(Violation(key, where_of(b, s["sp"]), rule,
                                     "%s: %s constructs std::fmt::Error itself; ToString::to_string / format! / {:?} on any "
                                     "value containing it panic (\"a Display implementation returned an error unexpectedly\")"
                                     % (rule, b.qname), [prog.bodies[x].qname for x in ctx.cg.path_to(reach, bid)]))
    report.count(len(reach))
    return n


def run(ctx):
    report = Report("C12", ctx, "R1: no undischarged panic site reachable from any Debug/Display/Clone/Hash/PartialEq impl of the "
                    "crate's types, any into_owned, the TXT attribute/string conversions, match_qtype/match_qclass and the Name "
                    "queries; R2: no std::fmt::Error is constructed under a Display/Debug impl. Inputs are arbitrary bytes, so "
                    "from_utf8(..).unwrap() has no discharge.")
    rs = roots(ctx, report)
    # allocation *size* is C01's concern (R3); a capacity taken from the length of data already in memory cannot
    # overflow isize, so with_capacity/reserve are not panic sites for this property
    reach = panicrule.check_panics(ctx, report, rs, "C12-R1", "C12", root_ids=set(r.id for r in rs),
                                   skip_kinds=("call:alloc",))
    fmt_roots = [r for r in rs if r.impl and r.impl["trait"] in ("std::fmt::Debug", "std::fmt::Display")]
    freach = ctx.cg.reachable([r.id for r in fmt_roots])
    fmt_err_rule(ctx, report, freach, "C12-R2")
    report.extra["roots"] = len(rs)
    report.assumptions += ["A-OVF", "allocation failure out of scope", "Hasher / Formatter supplied by the caller are total"]
    return report.finish()
