"""C10 Each record type's RDATA layout and type code follow its RFC."""
import re
from common import Report, Violation, load_tsv
from lin import Lin, entails
import layout
import mirutil as mu

# types whose body shape needs its own treatment (each with the reason and what is compared instead)
SPECIAL = {
    "IPSECKEY": "tagged union: compared per gateway type (tag constants written vs values tested)",
    "OPT": "OPT::parse also reads the CLASS / TTL slots of the record header (udp size, version): compared without them",
    "TXT": "write_to emits a single 0 byte for an empty TXT (one empty character-string): compared as rep{cstr}",
}


def viol(report, rule, what, kind, msg, where="-"):
    report.violate(Violation(report.key(what, rule, kind, ""), where, rule, "%s: %s" % (rule, msg)))


def schema_items(spec):
    out = []
    for tok in re.findall(r"rep\{[^}]*\}|\S+", spec):
        out.append(tok)
    return out


def run(ctx):
    prog, W = ctx.prog, ctx.whole
    report = Report("C10", ctx, "R1 the consume sequence extracted from parse (integer reads with width / byte order / offset, byte reads, "
                    "sub-parsers, raw and rest slices, repeats) and the emit sequence extracted from write_to are each compared, item "
                    "by item and field by field, with an RFC schema table (tables/rdata_schema.tsv); fixed-offset reads must be "
                    "contiguous; R2 TYPE_CODE = IANA (shared with C18-R1); R3 the structural rejections: LOC version, SVCB key order, "
                    "NSEC window order, inner lengths (C01).")
    schema = {r[0]: (r[1], r[2]) for r in load_tsv("rdata_schema.tsv")}
    pbs = {b.impl["self_s"].split("::")[-1].split("<")[0]: b for b in prog.method_bodies("wire_format::WireFormat", "parse")}
    wbs = {b.impl["self_s"].split("::")[-1].split("<")[0]: b for b in prog.method_bodies("wire_format::WireFormat", "write_to")}
    radt = prog.adts.get("simple_dns::dns::rdata::RData")
    variants = [v["name"] for v in radt["variants"] if v["name"] not in ("NULL", "Empty")] + ["NULL"]
    report.floor("RData variants with a schema row", len([v for v in variants if v in schema]), 41)
    for tn in variants:
        report.count()
        if tn not in schema:
            viol(report, "C10-R1", tn, "no-schema", "record type %s has no row in tables/rdata_schema.tsv" % tn)
            continue
        pb, wb = pbs.get(tn), wbs.get(tn)
        if pb is None or wb is None:
            report.lost_anchor("parse / write_to of %s" % tn)
            continue
        want = [layout.norm_item(x) for x in schema_items(schema[tn][1])]
        pseq, gaps = layout.parse_sequence_clean(ctx, W.results[pb.id])
        wseq = layout.write_sequence_inlined(ctx, W.results[wb.id])
        pn = layout.normalise(pseq, "parse")
        wn = layout.normalise(wseq, "write")
        if tn == "OPT":
            pn = [x for x in pn if not x.startswith(("u16:udp_packet_size", "u32"))]
        if tn == "TXT":
            wn = [x for x in wn if x != "bytes1"]
        if tn == "IPSECKEY":
            check_ipseckey(ctx, report, pb, wb)
            continue
        okp = layout.seq_match(pn, want)
        okw = layout.seq_match(wn, want)
        if gaps:
            viol(report, "C10-R1", tn, "gap", "%s::parse does not read its fixed fields contiguously: %s" % (tn, "; ".join(gaps[:3])),
                 "%s:%d" % (pb.file, pb.line))
        if not okp:
            viol(report, "C10-R1", tn, "parse-layout", "%s::parse consumes [%s] but %s specifies [%s]" % (
                tn, " ".join(pn), schema[tn][0], " ".join(want)), "%s:%d" % (pb.file, pb.line))
        if not okw:
            viol(report, "C10-R1", tn, "write-layout", "%s::write_to emits [%s] but %s specifies [%s]" % (
                tn, " ".join(wn), schema[tn][0], " ".join(want)), "%s:%d" % (wb.file, wb.line))
        if okp and okw and not gaps:
            report.nontriv("layout:" + tn)
            report.sample({"type": tn, "rfc": schema[tn][0], "layout": " ".join(want)}, cap=10)
    report.extra["special_cases"] = SPECIAL
    # ---- R3 structural rejections
    rejections(ctx, report, pbs, wbs)
    if wbs.get("NSEC") is not None:
        nsec_write_order(ctx, report, wbs["NSEC"])
    else:
        report.lost_anchor("NSEC::write_to")
    report.assumptions += ["tables/rdata_schema.tsv transcribes the RFC layouts", "semantic content of fields (e.g. LOC size encoding) is not decided"]
    return report.finish()


def check_ipseckey(ctx, report, pb, wb):
    """per gateway type: the tag byte written equals the value the parser tests, and the gateway bytes agree"""
    W = ctx.whole
    prog = ctx.prog
    an = W.results[pb.id]
    # tag symbol: the byte read at +1
    tag = [e for e in an.elems if repr(e["off"]) == "(*_2)@entry + 1"]
    if len(tag) != 1:
        viol(report, "C10-R1", "IPSECKEY", "tag", "IPSECKEY::parse does not read the gateway type at +1")
        return
    vw = layout.self_variants(prog, W.results[wb.id])
    key = [k for k in vw if k.endswith(".gateway")]
    if not key:
        viol(report, "C10-R1", "IPSECKEY", "tag", "IPSECKEY::write_to does not match on self.gateway")
        return
    want = {0: ["u8:precedence", "u8", "u8:algorithm", "rest:public_key"],
            1: ["u8:precedence", "u8", "u8:algorithm", "bytes4", "rest:public_key"],
            2: ["u8:precedence", "u8", "u8:algorithm", "bytes16", "rest:public_key"],
            3: ["u8:precedence", "u8", "u8:algorithm", "name", "rest:public_key"]}
    names = {"None": 0, "IPv4": 1, "IPv6": 2, "Domain": 3}
    for (vn, dv) in vw[key[0]]:
        report.count()
        tagv = names.get(vn)
        aw = layout.analyse(ctx, wb, {key[0]: dv})
        ws = layout.normalise(layout.write_sequence_inlined(ctx, aw), "write")
        written_tag = [x for x in ws if x.startswith("u8=")]
        ws_cmp = [("u8" if x.startswith("u8=") else x) for x in ws]
        ap = layout.analyse(ctx, pb, None)
        ap2 = zone_forced_sym(ctx, pb, tag[0]["sym"], tagv)
        ps, gaps = layout.parse_sequence_clean(ctx, ap2)
        ps = layout.normalise(ps, "parse")
        # the four single-byte reads of the IPv4 arm are one 4-byte field
        ps = merge_bytes(ps)
        ok = tagv is not None and written_tag == ["u8=%d" % tagv] and layout.seq_match(ws_cmp, want[tagv]) and \
            layout.seq_match([x for x in ps if not x.startswith("rep{")], [y.split(":")[0] if y.startswith("u8") and ":" not in y else y for y in want[tagv]])
        if ok:
            report.nontriv("layout:IPSECKEY/%s" % vn)
        else:
            viol(report, "C10-R1", "IPSECKEY/" + vn, "layout", "IPSECKEY gateway %s: write_to emits [%s] (tag %s), parse with type %s consumes [%s]; "
                 "RFC 4025 2.1 specifies [%s] with gateway type %s" % (vn, " ".join(ws), written_tag, tagv, " ".join(ps), " ".join(want.get(tagv, [])), tagv))


def merge_bytes(ps):
    out = []
    run = 0
    for x in ps + ["$"]:
        if x == "u8" and out and (out[-1] == "u8" or out[-1].startswith("bytes")) and run:
            pass
        out.append(x)
    out = out[:-1]
    # collapse >= 4 consecutive anonymous u8 into bytesN
    res = []
    i = 0
    while i < len(out):
        if out[i] == "u8":
            j = i
            while j < len(out) and out[j] == "u8":
                j += 1
            if j - i >= 4:
                res.append("bytes%d" % (j - i))
            else:
                res.extend(out[i:j])
            i = j
        else:
            res.append(out[i])
            i += 1
    return res


def zone_forced_sym(ctx, b, sym, value):
    import zone
    W = ctx.whole
    an = zone.Analyzer(b, W.summaries, W.cat, W.depth)
    an.force_sym = {sym: value}
    an.run()
    return an


def rejections(ctx, report, pbs, wbs):
    W = ctx.whole
    prog = ctx.prog
    # LOC: every Ok path of parse and write_to has version == 0
    for tn, bodies in (("LOC", [pbs.get("LOC"), wbs.get("LOC")]),):
        for b in bodies:
            report.count()
            if b is None:
                report.lost_anchor("LOC parse/write_to")
                continue
            an = W.results[b.id]
            import panics
            oks = [(bi, st, v) for bi, st, v in an.ok_points if v is not None and ((v[0] == "adt" and v[2] == "Ok") or v[0] == "callres")]
            good = bool(oks)
            for bi, st, v in oks:
                if v[0] == "callres":
                    st = panics.apply_ok(an, st, v[1])
                # the version value: parse -> first byte of the 16-byte window; write -> self.version
                cands = [s for s in _syms(st) if re.search(r"\.version@(\d+\.\d+|entry)$", s) or s.startswith("elem(*s") and s.endswith("[0])")]
                okv = any(entails(st.facts, an.iv, Lin.sym(s), 2) and entails(st.facts, an.iv, Lin.sym(s).scale(-1), 2) for s in cands)
                good = good and okv
            if good:
                report.nontriv("reject:LOC:" + b.name)
                report.sample({"rule": "R3", "fn": b.qname, "entailed": "version = 0 on every Ok path"})
            else:
                viol(report, "C10-R3", b.qname, "loc-version", "%s can succeed with a LOC version other than 0 (RFC 1876: version must be 0)" % b.qname,
                     "%s:%d" % (b.file, b.line))
    # SVCB keys strictly increasing; NSEC windows strictly increasing: the Err edge is taken unless new > previous
    for tn, what in (("SVCB", "SvcParamKeys"), ("NSEC", "window blocks")):
        b = pbs.get(tn)
        report.count()
        if b is None:
            report.lost_anchor(tn + "::parse")
            continue
        an = W.results[b.id]
        ok, why = order_check(ctx, b, an, tn)
        if ok:
            report.nontriv("reject:" + tn)
            report.sample({"rule": "R3", "fn": b.qname, "holds_because": why})
        else:
            viol(report, "C10-R3", b.qname, "order-check", "%s::parse does not reject %s that are not strictly increasing: %s" % (tn, what, why),
                 "%s:%d" % (b.file, b.line))


def nsec_write_order(ctx, report, wb):
    """RFC 4034 4.1.2: window blocks are written in increasing order.  `type_bit_maps` is a public vector in whatever order the
    caller built it, and NSEC::parse rejects anything but strictly increasing blocks, so the writer must iterate over a vector
    it has sorted by window_block - not over the field itself, nor over a sorted copy it then leaves aside."""
    import loops
    prog = ctx.prog
    defs = mu.defs_of(wb)
    dom = mu.dominators(wb)
    lps, _irr, _d = loops.natural_loops(wb)

    def source_local(op, depth=12):
        """the vector local an iterator operand runs over, walking back through iter / into_iter / deref and references"""
        cur = mu.op_local(op)
        for _ in range(depth):
            if cur is None:
                return None
            d = mu.single_def(defs, cur)
            if d is None:
                return ("local", cur)
            if d[1] == "term":
                t = d[2]
                nm = t["callee"]["def"] if t.get("callee") else ""
                if re.search(r"::(iter|iter_mut|into_iter|deref|deref_mut|as_slice|as_mut_slice)$", nm) and t["args"]:
                    cur = mu.op_local(t["args"][0])
                    continue
                return ("call", nm)
            rv = d[2]
            if rv.get("k") == "ref":
                pl = rv["pl"]
                fs = [p0["n"] for p0 in pl["p"] if isinstance(p0, dict) and "f" in p0]
                if fs:
                    return ("field", fs[-1])
                if pl["p"] == ["d"] or not pl["p"]:
                    if not pl["p"]:
                        dd = mu.single_def(defs, pl["l"])
                        if dd is None or dd[1] == "term":
                            return ("local", pl["l"])
                    cur = pl["l"]
                    continue
                return None
            if rv.get("k") == "use" and rv["op"].get("o") in ("copy", "move") and not rv["op"]["pl"]["p"]:
                cur = rv["op"]["pl"]["l"]
                continue
            return ("local", cur)
        return None
    sorts = []
    for bi, t in mu.calls(wb, r"^std::slice::<impl \[T\]>::(sort_by|sort_by_key|sort_unstable_by|sort_unstable_by_key|sort_by_cached_key)$"):
        key_cl = mu.single_def(defs, mu.op_local(t["args"][1])) if len(t["args"]) > 1 and mu.op_local(t["args"][1]) is not None else None
        cb = prog.bodies.get(key_cl[2]["def"]) if key_cl is not None and key_cl[1] != "term" and key_cl[2].get("ak") == "closure" else None
        if cb is None and len(t["args"]) > 1 and t["args"][1].get("o") == "const" and t["args"][1]["k"].get("c") == "fn":
            cb = prog.bodies.get(t["args"][1]["k"]["callee"].get("id"))       # a comparator passed by name
        by_block = cb is not None and any(isinstance(p0, dict) and p0.get("n") == "window_block" for bl in cb.blocks for s in bl["stmts"]
                                          if s["s"] == "assign" for pl in ([s["rv"].get("pl")] + [o.get("pl") for o in s["rv"].get("ops", [])] +
                                                                          [s["rv"].get("op", {}).get("pl") if isinstance(s["rv"].get("op"), dict) else None] +
                                                                          [s["rv"].get("a", {}).get("pl") if isinstance(s["rv"].get("a"), dict) else None])
                                          if pl for p0 in pl["p"])
        if by_block:
            sorts.append((bi, source_local(t["args"][0])))
    n = 0
    for h, info in sorted(lps.items()):
        ht = wb.blocks[h]["term"]
        if ht["t"] != "call" or not ht.get("callee") or not ht["callee"]["def"].endswith("as std::iter::Iterator>::next"):
            continue
        # only the loop that writes the windows: a window_block read in its body
        reads_wb = any(isinstance(p0, dict) and p0.get("n") == "window_block" for bi in info["body"] for s in wb.blocks[bi]["stmts"]
                       if s["s"] == "assign" and s["rv"].get("k") == "use" and s["rv"]["op"].get("o") in ("copy", "move") for p0 in s["rv"]["op"]["pl"]["p"])
        if not reads_wb:
            continue
        n += 1
        report.count()
        # the iterator is created before the loop: `&mut _it` <- `_it = into_iter(iter(deref(&V)))`
        itl = mu.ref_root(wb, defs, mu.op_local(ht["args"][0])) if mu.op_local(ht["args"][0]) is not None else None
        src = source_local({"o": "move", "pl": {"l": itl, "p": []}}) if itl is not None else None
        ok = src is not None and src[0] == "local" and any(s_src == src and sbi in dom[h] for sbi, s_src in sorts)
        if ok:
            report.nontriv("NSEC windows written from the sorted vector")
            report.sample({"rule": "R3", "fn": wb.qname, "holds_because": "the window loop iterates over _%d, sorted by window_block before the loop" % src[1]})
        else:
            viol(report, "C10-R3", wb.qname, "write-order", "NSEC::write_to writes the window blocks in the order of %s, which is not a vector "
                 "sorted by window_block before the loop (sorted: %s): RFC 4034 4.1.2 requires increasing blocks and NSEC::parse rejects "
                 "anything else" % ("self.%s" % src[1] if src and src[0] == "field" else src, [s for _b, s in sorts]), "%s:%d" % (wb.file, wb.line))
    report.floor("NSEC window-writing loops", n, 1)


def _syms(st):
    out = set()
    for f in st.facts:
        out |= set(f.syms())
    for k, v in st.store.items():
        if v is not None and v[0] == "lin":
            out |= set(v[1].syms())
    return out


def _reads_field(b, defs, op, field, depth=14):
    """does the operand read `.<field>` of something?  Followed backwards through every definition of the locals involved:
    copies / casts, `&x.field` + deref, and a value wrapped into `Option::Some(..)` and unwrapped again (`None` definitions carry
    no value and are skipped).  True iff at least one source is found and every source reads the field."""
    found = []

    def place(pl, unwrap, d):
        proj = list(pl["p"])
        if any(isinstance(p, dict) and p.get("n") == field for p in proj):
            found.append(True)
            return
        # (_x as Some).0
        if len(proj) >= 2 and isinstance(proj[0], dict) and proj[0].get("dc") is not None and proj[0].get("n") == "Some" and \
                isinstance(proj[1], dict) and proj[1].get("f") == 0 and len(proj) == 2:
            local(pl["l"], unwrap + 1, d)
        elif proj == ["d"]:
            local(pl["l"], unwrap, d, deref=True)
        elif not proj:
            local(pl["l"], unwrap, d)
        else:
            found.append(False)

    def local(l, unwrap, d, deref=False):
        if d <= 0:
            found.append(False)
            return
        ds = defs.get(l, [])
        if not ds:
            found.append(False)
            return
        for (bi, si, rv) in ds:
            if si == "term":
                found.append(False)
                continue
            k = rv.get("k")
            if k == "use":
                o = rv["op"]
                if o.get("o") in ("copy", "move"):
                    if deref:
                        # a copied reference
                        local_or_place_deref(o["pl"], unwrap, d - 1)
                    else:
                        place(o["pl"], unwrap, d - 1)
                else:
                    found.append(False)
            elif k == "cast" and rv["op"].get("o") in ("copy", "move") and not deref:
                place(rv["op"]["pl"], unwrap, d - 1)
            elif k == "ref" and deref:
                place(rv["pl"], unwrap, d - 1)
            elif k == "agg" and rv.get("ak") == "adt" and rv.get("adt", "").endswith("Option") and not deref:
                if rv["vn"] == "None":
                    continue
                if unwrap > 0 and rv["ops"] and rv["ops"][0].get("o") in ("copy", "move"):
                    place(rv["ops"][0]["pl"], unwrap - 1, d - 1)
                else:
                    found.append(False)
            else:
                found.append(False)

    def local_or_place_deref(pl, unwrap, d):
        if not pl["p"]:
            local(pl["l"], unwrap, d, deref=True)
        else:
            found.append(False)

    if op.get("o") not in ("copy", "move"):
        return False
    place(op["pl"], 0, depth)
    return bool(found) and all(found)


def nsec_inline_order(ctx, b):
    """the window-order test written in the function body: a comparison between `<last element>.window_block` and the window
    number that goes into the pushed TypeBitMap, whose "previous >= current" outcome leads to the error return"""
    defs = mu.defs_of(b)
    aggs = mu.aggregates(b, "nsec::TypeBitMap")
    if len(aggs) != 1:
        return False, "expected one TypeBitMap construction"
    agg = aggs[0][2]["rv"]
    fi = list(agg["fields"]).index("window_block") if "window_block" in agg["fields"] else None
    if fi is None:
        return False, "TypeBitMap has no window_block field"
    W = mu.origin_local(b, defs, mu.op_local(agg["ops"][fi]))
    lasts = mu.calls(b, r"<impl \[T\]>::last$")
    if len(lasts) != 1:
        return False, "the previous window is not obtained with last()"
    errs = [x[0] for x in mu.aggregates(b, "simple_dns_error::SimpleDnsError")]
    pushes = [x[0] for x in mu.calls(b, r"Vec::<T, A>::push$")]
    flip = {"Ge": "Le", "Le": "Ge", "Gt": "Lt", "Lt": "Gt"}
    neg = {"Ge": "Lt", "Lt": "Ge", "Gt": "Le", "Le": "Gt"}
    for bi, bl in enumerate(b.blocks):
        if bl["cleanup"]:
            continue
        for s1 in bl["stmts"]:
            if s1["s"] != "assign" or s1["rv"]["k"] != "bin" or s1["rv"]["op"] not in flip:
                continue
            a0, b0, op = s1["rv"]["a"], s1["rv"]["b"], s1["rv"]["op"]
            pa, pb = _reads_field(b, defs, a0, "window_block"), _reads_field(b, defs, b0, "window_block")
            wa = mu.origin_local(b, defs, mu.op_local(a0)) == W if mu.op_local(a0) is not None else False
            wb = mu.origin_local(b, defs, mu.op_local(b0)) == W if mu.op_local(b0) is not None else False
            if pa and wb:
                pass
            elif pb and wa:
                op = flip[op]
            else:
                continue
            sw = bl["term"]
            if sw["t"] != "switch" or mu.op_local(sw["discr"]) != s1["pl"]["l"]:
                continue
            true_t = sw["otherwise"]
            false_t = [tg for v, tg in sw["arms"] if int(v) == 0]
            if not false_t:
                continue
            an = ctx.whole.results.get(b.id)
            if an is not None and getattr(an, "node_edges", None):
                rt, rf = an.blocks_reachable(true_t, avoid={bi}), an.blocks_reachable(false_t[0], avoid={bi})
            else:
                rt, rf = mu.reachable_from(b, true_t, avoid={bi}), mu.reachable_from(b, false_t[0], avoid={bi})
            # the rejecting side reaches an error construction and never the push
            err_true = any(e in rt for e in errs) and not any(p in rt for p in pushes)
            err_false = any(e in rf for e in errs) and not any(p in rf for p in pushes)
            if err_true == err_false:
                continue
            error_when = op if err_true else neg[op]          # condition (previous <op> current) under which the error is returned
            ok_side = rf if err_true else rt
            if error_when == "Ge" and any(p in ok_side for p in pushes):
                return True, "error when previous.window_block >= window_block (test in the function body)"
            return False, "the window test rejects when previous %s current; required: previous >= current" % error_when
    return False, "no comparison between the previous window block and the current one guards the push"


def order_check(ctx, b, an, tn):
    """SVCB: at the point a parameter is stored, the numeric domain entails key > previous key.
       NSEC: the closure given to is_some_and returns `previous.window_block >= window_block` and its true edge is the error."""
    prog = ctx.prog
    if tn == "SVCB":
        ins = [e for e in an.events if e.get("callee") and e["callee"]["def"].endswith("BTreeMap::<K, V, A>::insert")]
        if len(ins) != 1:
            return False, "expected one params.insert"
        st = ins[0]["st"]
        # the key read of this iteration: 16-bit read at the loop cursor
        keys = [r for r in an.reads if r["width"] == 2 and len(r["off"].t) == 1 and r["off"].c == 0 and r["off"].t[0][0].startswith("phi(")]
        if len(keys) != 1:
            return False, "cannot identify the key read of the parameter loop"
        key = Lin.sym(keys[0]["sym"])
        # the loop-carried value that remembers the last key: its value on the back edge is key + d for a constant d
        # (d = 0: "previous key", d = 1: "smallest key still allowed"); strictly increasing keys need  carried + 1 - d <= key
        tried = []
        for n, (ph, inc, back) in an.join_info.items():
            for var, (pname, vs) in ph.items():
                for i, v in enumerate(vs):
                    if not back[i]:
                        continue
                    dlt = v - key
                    if not dlt.is_const():
                        # the value may have been widened / cast: compare through derived symbols
                        continue
                    tried.append((var, dlt.c))
                    if entails(st.facts, an.iv, Lin.sym(pname) + 1 - dlt.c - key, an.depth):
                        return True, "at params.insert the domain entails key > every earlier key (carried in %s, offset %d)" % (var, dlt.c)
        if not tried:
            return False, "no loop-carried value remembers the previous key"
        return False, "at params.insert nothing relates the key to the previous key (equal or smaller keys are accepted)"
    if tn == "NSEC":
        import zone
        cl = mu.closures_of(prog, b)
        if len(cl) == 0:
            return nsec_inline_order(ctx, b)
        if len(cl) != 1:
            return False, "expected one closure (the is_some_and predicate)"
        can = ctx.whole.results.get(cl[0].id)
        rets = [st.store.get("_0") for bi, st in can.ret_states]
        if len(rets) != 1 or rets[0] is None or rets[0][0] != "bool":
            return False, "the predicate is not a single comparison"
        _, op, la, lb_ = rets[0]
        sa, sb = repr(la), repr(lb_)
        prev_a = ".window_block" in sa and "(*_2)" in sa
        prev_b = ".window_block" in sb and "(*_2)" in sb
        cap_a = "_1.0" in sa or "(*_1" in sa
        cap_b = "_1.0" in sb or "(*_1" in sb
        good = (op == "Ge" and prev_a and cap_b and la.c == 0 and lb_.c == 0) or (op == "Le" and cap_a and prev_b and la.c == 0 and lb_.c == 0)
        if not good:
            return False, "the predicate is `%s %s %s`, which is not `previous.window_block >= window_block`" % (sa, op, sb)
        # its true edge must be the error return
        calls = mu.calls(b, r"Option::<T>::is_some_and$")
        if len(calls) != 1:
            return False, "expected one is_some_and call"
        bi, t = calls[0]
        # "previous" is the element stored last: the Option tested comes from `last()` (windows must increase from one to the
        # next; comparing with the first element accepts 0, 2, 1)
        defs = mu.defs_of(b)
        lasts = mu.calls(b, r"<impl \[T\]>::last$")
        src = mu.origin_local(b, defs, mu.op_local(t["args"][0]))
        if len(lasts) != 1 or lasts[0][1]["dest"]["p"] or src != lasts[0][1]["dest"]["l"]:
            return False, "the window compared with is not the one stored last (`last()`): %s" % (
                [c2["callee"]["def"].split("::")[-1] for _b, c2 in mu.calls(b, r"<impl \[T\]>::(first|last|get|iter)$")] or "no last() call")
        sw = b.blocks[t["target"]]["term"]
        if sw["t"] != "switch":
            return False, "result of is_some_and is not branched on"
        true_t = sw["otherwise"]
        false_t = [tg for v, tg in sw["arms"] if int(v) == 0]
        errs = [x[0] for x in mu.aggregates(b, "simple_dns_error::SimpleDnsError")]
        pushes = [x[0] for x in mu.calls(b, r"Vec::<T, A>::push$")]
        r_true = mu.reachable_from(b, true_t, avoid=set(false_t))
        if any(e in r_true for e in errs) and not any(p in mu.reachable_from(b, true_t, avoid={t["target"]}) and p not in mu.reachable_from(b, false_t[0]) for p in pushes):
            return True, "error when previous.window_block >= window_block"
        return False, "the true edge of the predicate does not lead to the error return"
    return False, "unknown"
