"""Fact base: builds (or reuses, keyed by content hash) the sdlint fact files for
/repo's *current working tree* and loads them into a Program object.

Nothing here executes code of /repo: `cargo +nightly check` type-checks it with the
sdlint driver as RUSTC_WORKSPACE_WRAPPER; the driver dumps the callee-resolved MIR.
"""
import fcntl
import hashlib
import json
import os
import re
import shutil
import subprocess
import sys
import time

VERIF = os.path.dirname(os.path.dirname(os.path.abspath(__file__)))
REPO = os.environ.get("SDLINT_REPO", "/repo")
CACHE = os.path.join(VERIF, ".cache")
DRIVER = os.path.join(VERIF, "driver", "target", "release", "sdlint")

CONFIGS = {
    # name: (cargo args, extra RUSTFLAGS)
    "all": (["--workspace", "--all-features"], ""),
    "default": (["--workspace"], ""),
    "noovf": (["--workspace", "--all-features"], "-Coverflow-checks=off"),
}


class InfraError(Exception):
    pass


def tree_hash(root):
    h = hashlib.sha256()
    paths = []
    for d, dirs, files in os.walk(root):
        dirs[:] = sorted(x for x in dirs if x not in ("target", ".git"))
        for f in sorted(files):
            if f.endswith(".rs") or f in ("Cargo.toml", "Cargo.lock"):
                paths.append(os.path.join(d, f))
    for p in sorted(paths):
        h.update(os.path.relpath(p, root).encode())
        h.update(b"\0")
        with open(p, "rb") as fh:
            h.update(fh.read())
        h.update(b"\0")
    # the driver is part of the key: a rebuilt driver invalidates old facts
    if os.path.exists(DRIVER):
        st = os.stat(DRIVER)
        h.update(("%d:%d" % (st.st_size, int(st.st_mtime))).encode())
    return h.hexdigest()[:20]


def nightly_sysroot():
    return subprocess.check_output(["rustc", "+nightly", "--print", "sysroot"], text=True).strip()


def ensure_driver():
    if os.path.exists(DRIVER):
        return
    env = dict(os.environ, CARGO_NET_OFFLINE="true")
    r = subprocess.run(["cargo", "+nightly", "build", "--release", "--offline"],
                       cwd=os.path.join(VERIF, "driver"), env=env,
                       stdout=subprocess.PIPE, stderr=subprocess.STDOUT, text=True)
    if r.returncode != 0 or not os.path.exists(DRIVER):
        raise InfraError("cannot build sdlint driver:\n" + r.stdout[-3000:])


def run_driver(src_root, out_dir, target_dir, config="all", crates="simple_dns,simple_mdns",
               packages=None):
    """Type-check src_root with the driver; fact files land in out_dir."""
    ensure_driver()
    cargs, extra = CONFIGS[config]
    os.makedirs(out_dir, exist_ok=True)
    os.makedirs(target_dir, exist_ok=True)
    # cargo's freshness cache would skip the wrapper: drop the members' fingerprints
    fp = os.path.join(target_dir, "debug", ".fingerprint")
    if os.path.isdir(fp):
        for n in os.listdir(fp):
            if not re.match(r"^(bitflags|cfg-if|libc|log|socket2|radix_trie|nibble_vec|endian-type|"
                            r"smallvec|tokio|tokio-macros|pin-project-lite|proc-macro2|quote|syn|"
                            r"unicode-ident|mio|bytes)-", n):
                shutil.rmtree(os.path.join(fp, n), ignore_errors=True)
    env = dict(os.environ)
    env.update({
        "LD_LIBRARY_PATH": nightly_sysroot() + "/lib",
        "RUSTFLAGS": ("-Zmir-opt-level=0 -Awarnings " + extra).strip(),
        "RUSTC_WORKSPACE_WRAPPER": DRIVER,
        "SDLINT_OUT": out_dir,
        "SDLINT_CRATES": crates,
        "CARGO_TARGET_DIR": target_dir,
        "CARGO_NET_OFFLINE": "true",
    })
    cmd = ["cargo", "+nightly", "check", "--offline"] + (packages or cargs)
    r = subprocess.run(cmd, cwd=src_root, env=env, stdout=subprocess.PIPE,
                       stderr=subprocess.STDOUT, text=True)
    if r.returncode != 0:
        raise InfraError("cargo check failed under the driver:\n" + r.stdout[-4000:])
    return r.stdout


def build_fixture_facts():
    """facts of the rule fixtures (tiny crate with good / bad twins), cached by content hash like /repo's"""
    os.makedirs(CACHE, exist_ok=True)
    src = os.path.join(VERIF, "fixtures", "fx_rules")
    lock = open(os.path.join(CACHE, "lock"), "w")
    fcntl.flock(lock, fcntl.LOCK_EX)
    try:
        sha = tree_hash(src)
        fdir = os.path.join(CACHE, "fx-facts", sha)
        if os.path.exists(os.path.join(fdir, "fx_rules.json")) and os.path.exists(os.path.join(fdir, "ok")):
            return fdir
        shutil.rmtree(os.path.join(CACHE, "fx-facts"), ignore_errors=True)
        run_driver(src, fdir, os.path.join(CACHE, "target-fx"), "all", crates="fx_rules", packages=[])
        if not os.path.exists(os.path.join(fdir, "fx_rules.json")):
            raise InfraError("driver did not write the fixture facts")
        open(os.path.join(fdir, "ok"), "w").write("ok")
        return fdir
    finally:
        fcntl.flock(lock, fcntl.LOCK_UN)
        lock.close()


def build_facts(config="all", verbose=False):
    """Return (facts_dir, sha, reused)."""
    os.makedirs(CACHE, exist_ok=True)
    lock = open(os.path.join(CACHE, "lock"), "w")
    fcntl.flock(lock, fcntl.LOCK_EX)
    try:
        sha = tree_hash(REPO)
        fdir = os.path.join(CACHE, "facts", "%s-%s" % (sha, config))
        need = ["simple_dns.json", "simple_mdns.json"]
        if all(os.path.exists(os.path.join(fdir, n)) for n in need) and os.path.exists(os.path.join(fdir, "ok")):
            return fdir, sha, True
        shutil.rmtree(fdir, ignore_errors=True)
        tdir = os.path.join(CACHE, "target-" + config)
        t0 = time.time()
        run_driver(REPO, fdir, tdir, config)
        for n in need:
            if not os.path.exists(os.path.join(fdir, n)):
                raise InfraError("driver did not write %s (cargo skipped the wrapper?)" % n)
        open(os.path.join(fdir, "ok"), "w").write("%.1f" % (time.time() - t0))
        # keep the cache small: retain the 6 most recent fact dirs
        froot = os.path.join(CACHE, "facts")
        ds = sorted((os.path.getmtime(os.path.join(froot, d)), d) for d in os.listdir(froot))
        for _, d in ds[:-6]:
            shutil.rmtree(os.path.join(froot, d), ignore_errors=True)
        if verbose:
            print("facts built in %.1fs -> %s" % (time.time() - t0, fdir), file=sys.stderr)
        return fdir, sha, False
    finally:
        fcntl.flock(lock, fcntl.LOCK_UN)
        lock.close()


# --------------------------------------------------------------------------- model

_LT = re.compile(r"<'[a-z_]+>|'[a-z_]+,\s*|'[a-z_]+\s+|<'_>")


def strip_lifetimes(s):
    s = re.sub(r"<'[a-z_0-9]+(,\s*'[a-z_0-9]+)*>", "", s)
    s = re.sub(r"'[a-z_0-9]+,\s*", "", s)
    s = re.sub(r"&'[a-z_0-9]+\s+", "&", s)
    s = re.sub(r"::<>", "", s)
    return s


def short_ty(s):
    """drop module paths from a type string: dns::name::Name<'a> -> Name"""
    s = strip_lifetimes(s)
    return re.sub(r"(?:[A-Za-z_][A-Za-z_0-9]*::)+", "", s)


class Body:
    __slots__ = ("id", "crate", "j", "prog", "qname", "blocks", "locals", "argc", "impl", "name",
                 "kind", "root", "preds", "_names", "vis", "module")

    def __init__(self, prog, crate, j):
        self.prog = prog
        self.crate = crate
        self.j = j
        self.id = j["id"]
        self.blocks = j["blocks"]
        self.locals = j["locals"]
        self.argc = j["argc"]
        self.impl = j["impl"]
        self.name = j["name"]
        self.kind = j["kind"]
        self.root = j["root"]
        self.vis = j["vis"]
        self.module = j["module"]
        self.qname = None
        self.preds = None
        self._names = None

    @property
    def file(self):
        return self.prog.files[self.crate][self.j["span"]["f"]]

    @property
    def line(self):
        return self.j["span"]["l"]

    def local_ty(self, l):
        return self.prog.types[self.crate][self.locals[l]["t"]]

    def ty(self, ix):
        return self.prog.types[self.crate][ix]

    def local_names(self):
        if self._names is None:
            self._names = {}
            for d in self.j["debug"]:
                pl = d["pl"]
                if not pl["p"]:
                    self._names.setdefault(pl["l"], d["name"])
        return self._names

    def successors(self, bi, unwind=False):
        t = self.blocks[bi]["term"]
        k = t["t"]
        out = []
        if k == "goto":
            out = [t["target"]]
        elif k == "switch":
            out = [a[1] for a in t["arms"]] + [t["otherwise"]]
        elif k in ("call", "drop", "assert"):
            if t.get("target") is not None:
                out = [t["target"]]
            if unwind and t.get("unwind") is not None:
                out.append(t["unwind"])
        elif k == "yield":
            out = [t["resume"]]
            if t.get("drop") is not None:
                out.append(t["drop"])
        return out

    def compute_preds(self):
        if self.preds is None:
            self.preds = [[] for _ in self.blocks]
            for i in range(len(self.blocks)):
                if self.blocks[i]["cleanup"]:
                    continue
                for s in self.successors(i):
                    self.preds[s].append(i)
        return self.preds

    def span_of(self, sp):
        return "%s:%d:%d" % (self.prog.files[self.crate][sp["f"]], sp["l"], sp["c"])


class Program:
    def __init__(self, fdir):
        self.bodies = {}
        self.types = {}
        self.files = {}
        self.adts = {}
        self.impls = []
        self.consts = {}
        self.crates = []
        names = ["simple_dns", "simple_mdns"] + sorted(n[:-5] for n in os.listdir(fdir)
                                                           if n.endswith(".json") and n[:-5] not in ("simple_dns", "simple_mdns"))
        for name in names:
            p = os.path.join(fdir, name + ".json")
            if not os.path.exists(p):
                continue
            with open(p) as fh:
                j = json.load(fh)
            c = j["crate"]
            self.crates.append(c)
            self.types[c] = j["types"]
            self.files[c] = j["files"]
            for a in j["adts"]:
                a["crate"] = c
                self.adts[a["name"]] = a
            for im in j["impls"]:
                im["crate"] = c
                self.impls.append(im)
            for k in j["consts"]:
                k["crate"] = c
                self.consts[k["def"]] = k
            for b in j["bodies"]:
                body = Body(self, c, b)
                self.bodies[body.id] = body
        # names of ordinary functions first; same-named items of sibling modules (sync_discovery / async_discovery)
        # get the distinguishing module segment; closures and promoteds derive from their final parent name
        plain = [b for b in self.bodies.values() if b.kind not in ("Closure", "Promoted")]
        for b in plain:
            b.qname = self._qname(b)
        groups = {}
        for b in plain:
            groups.setdefault(b.qname, []).append(b)
        for q, bs in groups.items():
            if len(bs) > 1:
                for b in bs:
                    segs = b.module.split("::")
                    seg = segs[1] if len(segs) > 1 else "root"
                    b.qname = b.qname.replace(b.crate + "::", "%s::[%s]::" % (b.crate, seg), 1)
        for b in sorted(self.bodies.values(), key=lambda x: len(x.id)):
            if b.kind in ("Closure", "Promoted"):
                b.qname = self._qname(b)
        self.by_qname = {}
        for b in self.bodies.values():
            self.by_qname.setdefault(b.qname, []).append(b)
        # functions outside the reference inventory (helpers extracted by a later refactoring) are transparent
        import inline
        self.renamed = {}
        self.absorbed = {}
        self.inlined = inline.apply(self, VERIF) if os.environ.get("SDLINT_NO_INLINE") != "1" else []

    def _qname(self, b):
        """line-number-free, impl-index-free display name used in reports and keys"""
        if b.kind == "Promoted":
            parent = self.bodies.get(b.id[:b.id.rfind("::promoted[")])
            pq = (parent.qname or self._qname(parent)) if parent is not None else b.id
            return pq + b.id[b.id.rfind("::promoted["):]
        if b.kind == "Closure":
            root = self.bodies.get(b.root)
            suffix = b.id[len(b.root):] if b.id.startswith(b.root) else "::{closure}"
            if root is not None:
                return (root.qname or self._qname(root)) + suffix
            return b.id
        if b.impl:
            st = short_ty(b.impl["self_s"])
            if b.impl["trait"]:
                tr = short_ty(b.impl["trait_full"] or b.impl["trait"])
                return "%s::<%s as %s>::%s" % (b.crate, st, tr, b.name)
            return "%s::%s::%s" % (b.crate, st, b.name)
        # free function: crate::module path::name, from def (already line-free)
        return strip_lifetimes(b.j["def"])

    def promoted_value(self, op):
        """(adt path, variant name) when the operand is a promoted constant `&ADT::Variant`"""
        if op.get("o") != "const":
            return None
        pid = op["k"].get("promoted")
        if not pid or pid not in self.bodies:
            return None
        pb = self.bodies[pid]
        for bl in pb.blocks:
            for st in bl["stmts"]:
                if st["s"] == "assign" and st["rv"]["k"] == "agg" and st["rv"]["ak"] == "adt":
                    return (st["rv"]["adt"], st["rv"]["vn"])
        return None

    def promoted_fields(self, op):
        """integer constant fields of a promoted `&ADT { consts }` (e.g. `&(7..9)`), else None"""
        if op.get("o") != "const":
            return None
        pid = op["k"].get("promoted")
        if not pid or pid not in self.bodies:
            return None
        for bl in self.bodies[pid].blocks:
            for st in bl["stmts"]:
                if st["s"] == "assign" and st["rv"]["k"] == "agg" and st["rv"]["ak"] == "adt":
                    ops = st["rv"]["ops"]
                    if all(o["o"] == "const" and o["k"].get("c") == "int" for o in ops):
                        return [int(o["k"]["v"]) for o in ops]
                    return None
        return None

    # ---- lookups -------------------------------------------------------------
    def find(self, qname):
        r = self.by_qname.get(qname, [])
        return r[0] if len(r) == 1 else None

    def impls_of(self, trait_suffix):
        return [im for im in self.impls if im["trait"] and im["trait"].endswith(trait_suffix)]

    def method_bodies(self, trait_suffix, method):
        out = []
        for b in self.bodies.values():
            if b.impl and b.impl["trait"] and b.impl["trait"].endswith(trait_suffix) and b.name == method \
                    and b.kind not in ("Closure", "Promoted"):
                out.append(b)
        return out


# --------------------------------------------------------------------------- pretty printer

def fmt_place(b, pl):
    s = "_%d" % pl["l"]
    for p in pl["p"]:
        if p == "d":
            s = "(*%s)" % s
        elif isinstance(p, dict):
            if "f" in p:
                s = "%s.%s" % (s, p["n"] if p["n"] else p["f"])
            elif "ix" in p:
                s = "%s[_%d]" % (s, p["ix"])
            elif "cix" in p:
                s = "%s[%s%d]" % (s, "-" if p["end"] else "", p["cix"])
            elif "sub" in p:
                s = "%s[%d..%s%d]" % (s, p["sub"][0], "-" if p["end"] else "", p["sub"][1])
            elif "dc" in p:
                s = "(%s as %s)" % (s, p["n"] or p["dc"])
        else:
            s = "%s.<%s>" % (s, p)
    return s


def fmt_op(b, op):
    if op["o"] in ("copy", "move"):
        return ("move " if op["o"] == "move" else "") + fmt_place(b, op["pl"])
    if op["o"] == "const":
        k = op["k"]
        if k["c"] == "int":
            u = k.get("uneval")
            return "const %s%s" % (k["v"], (" /*%s*/" % u.split("::")[-1]) if u else "")
        if k["c"] == "fn":
            return "fn %s" % k["callee"]["def"]
        if k["c"] in ("bytes", "raw"):
            return "const %s%r" % (k["c"], bytes(k["v"]))
        return "const <%s %s>" % (k["c"], k.get("s", b.ty(k["t"])["s"]))
    return "<%s>" % op["o"]


def fmt_rv(b, rv):
    k = rv["k"]
    if k == "use":
        return fmt_op(b, rv["op"])
    if k == "ref":
        return "&%s%s" % ("mut " if rv["mut"] else "", fmt_place(b, rv["pl"]))
    if k == "bin":
        return "%s(%s, %s)" % (rv["op"], fmt_op(b, rv["a"]), fmt_op(b, rv["b"]))
    if k == "un":
        return "%s(%s)" % (rv["op"], fmt_op(b, rv["a"]))
    if k == "cast":
        return "%s as %s (%s)" % (fmt_op(b, rv["op"]), b.ty(rv["t"])["s"], rv["ck"])
    if k == "discr":
        return "discriminant(%s)" % fmt_place(b, rv["pl"])
    if k == "agg":
        ops = ", ".join(fmt_op(b, o) for o in rv["ops"])
        if rv["ak"] == "adt":
            return "%s::%s { %s }" % (rv["adt"].split("::")[-1], rv["vn"], ops)
        if rv["ak"] in ("closure", "coroutine"):
            return "%s %s [%s]" % (rv["ak"], rv["def"], ops)
        return "%s(%s)" % (rv["ak"], ops)
    if k == "repeat":
        return "[%s; %s]" % (fmt_op(b, rv["op"]), rv["n"])
    return "<%s>" % k


def dump_body(b, out=sys.stdout):
    print("fn %s   [%s]  %s:%d" % (b.qname, b.id, b.file, b.line), file=out)
    names = b.local_names()
    for i, l in enumerate(b.locals):
        tag = "ret" if i == 0 else ("arg" if i <= b.argc else "")
        print("    let _%d: %s; // %s %s" % (i, b.ty(l["t"])["s"], tag, names.get(i, "")), file=out)
    for bi, bl in enumerate(b.blocks):
        print("  bb%d%s:" % (bi, " (cleanup)" if bl["cleanup"] else ""), file=out)
        for s in bl["stmts"]:
            if s["s"] == "assign":
                print("      %s = %s;    // L%d" % (fmt_place(b, s["pl"]), fmt_rv(b, s["rv"]), s["sp"]["l"]), file=out)
            elif s["s"] == "setdiscr":
                print("      discriminant(%s) = %d;" % (fmt_place(b, s["pl"]), s["vi"]), file=out)
        t = bl["term"]
        k = t["t"]
        if k == "call":
            c = t["callee"]
            cn = c["def"] if c else ("(%s)" % fmt_op(b, t["fop"]))
            print("      %s = %s(%s) -> bb%s%s;   // L%d %s" % (
                fmt_place(b, t["dest"]), cn, ", ".join(fmt_op(b, a) for a in t["args"]), t["target"],
                "" if (c is None or c["resolved"]) else " [unresolved]", t["sp"]["l"], t["sp"]["sn"] or ""), file=out)
        elif k == "switch":
            print("      switchInt(%s) -> [%s, otherwise: bb%d];" % (
                fmt_op(b, t["discr"]), ", ".join("%s: bb%d" % (a[0], a[1]) for a in t["arms"]), t["otherwise"]), file=out)
        elif k == "assert":
            print("      assert(%s == %s, %s) -> bb%d;   // L%d" % (
                fmt_op(b, t["cond"]), t["expected"], t["msg"]["ak"], t["target"], t["sp"]["l"]), file=out)
        elif k == "drop":
            print("      drop(%s) -> bb%d;" % (fmt_place(b, t["pl"]), t["target"]), file=out)
        elif k == "goto":
            print("      goto -> bb%d;" % t["target"], file=out)
        else:
            print("      %s;" % k, file=out)


if __name__ == "__main__":
    fdir, sha, reused = build_facts("all", verbose=True)
    prog = Program(fdir)
    if len(sys.argv) > 1:
        pat = sys.argv[1]
        for b in sorted(prog.bodies.values(), key=lambda b: b.qname):
            if re.search(pat, b.qname):
                dump_body(b)
                print()
    else:
        print(fdir, sha, reused, len(prog.bodies))
