"""C13 mDNS replies contain exactly the matching records (partial: filtering, provenance, id/flags, key boundaries)."""
import itertools
import re
from common import Report, Violation
import tables
from tables import Evaluator, EnumVal, Opaque, NotATable
import mirutil as mu


def viol(report, rule, b, kind, msg):
    report.violate(Violation(report.key(b.qname, rule, kind, ""), "%s:%d" % (b.file, b.line), rule, "%s: %s" % (rule, msg)))


def chain_of(b, defs, local, depth=14):
    """names of the calls a value flows through, following first arguments backwards"""
    names = []
    cur = local
    for _ in range(depth):
        if cur is None:
            break
        st = mu.trace_back(b, defs, cur)
        if not st:
            break
        last = st[-1]
        if last[2] == "term":
            t = last[3]
            names.append((t["callee"]["def"], t))
            cur = mu.op_local(t["args"][0]) if t["args"] else None
        else:
            rv = last[3]
            if rv.get("k") == "use" and rv["op"]["o"] in ("copy", "move") and rv["op"]["pl"]["p"]:
                names.append(("place:" + ".".join(str(p.get("n") if isinstance(p, dict) else p) for p in rv["op"]["pl"]["p"]), None))
                cur = rv["op"]["pl"]["l"]
            else:
                break
    return names


def capture_values(b, defs, cb, question):
    """what the filter closure captured, by provenance in build_reply: the question itself (a reference to a Question) or one
    of its fields copied out beforehand (e.g. passed by value to a helper that has been inlined back)"""
    agg = None
    for bl in b.blocks:
        for s1 in bl["stmts"]:
            if s1["s"] == "assign" and s1["rv"]["k"] == "agg" and s1["rv"].get("ak") == "closure" and s1["rv"].get("def") == cb.id:
                agg = s1["rv"]
    if agg is None:
        return (question,)
    out = []
    for op in agg["ops"]:
        val = None
        cur = op
        for _ in range(10):
            if cur.get("o") not in ("copy", "move"):
                break
            pl = cur["pl"]
            fs = [p["n"] for p in pl["p"] if isinstance(p, dict) and "f" in p and p.get("n")]
            if fs and fs[-1] in question:
                val = Opaque("question." + fs[-1]) if not isinstance(question[fs[-1]], int) else question[fs[-1]]
                break
            if "Question" in b.ty(pl["t"])["s"] and not fs:
                val = question
                break
            d = mu.single_def(defs, pl["l"])
            if d is None or d[1] == "term":
                break
            rv = d[2]
            if rv.get("k") == "use":
                cur = rv["op"]
            elif rv.get("k") == "ref":
                cur = {"o": "copy", "pl": rv["pl"]}
            else:
                break
        out.append(val if val is not None else Opaque("capture"))
    return tuple(out)


def truth_table(ctx, report, cb, rule, expect, what, host=None, hdefs=None):
    """evaluate a filter closure as a decision table over the outcomes of match_qclass / match_qtype"""
    prog = ctx.prog
    bad = []
    seen_args = {"class": set(), "type": set()}
    for qc, qa, qaaaa, qother in itertools.product((0, 1), repeat=4):
        def mq(vals):
            q = vals[1]
            seen_args["type"].add(repr(q))
            if isinstance(q, EnumVal) and q.v == "TYPE" and q.f and isinstance(q.f[0], EnumVal):
                return {"A": qa, "AAAA": qaaaa}.get(q.f[0].v, qother)
            return qother

        def mc(vals):
            seen_args["class"].add(repr(vals[1]))
            return qc
        hooks = {("call", "simple_dns::ResourceRecord::<'a>::match_qtype"): mq, ("call", "simple_dns::ResourceRecord::<'a>::match_qclass"): mc}
        ev = Evaluator(prog, hooks)
        question = {"qclass": Opaque("question.qclass"), "qtype": Opaque("question.qtype"), "qname": Opaque("qname"), "unicast_response": 0}
        caps = capture_values(host, hdefs, cb, question) if host is not None else (question,)
        r = ev.call(cb, [("closure", cb.id, caps), {"rdata": Opaque("r")}])
        want = expect(qc, qa, qaaaa, qother)
        report.count()
        if r != want:
            bad.append("class-match=%d A=%d AAAA=%d other-type=%d -> %r, expected %r" % (qc, qa, qaaaa, qother, r, want))
    if bad:
        viol(report, rule, cb, "filter", "%s does not compute the required condition: %s" % (what, "; ".join(bad[:3])))
        return False, seen_args
    report.nontriv("truth:" + cb.qname)
    return True, seen_args


def run(ctx):
    prog = ctx.prog
    report = Report("C13", ctx, "On simple_mdns::build_reply: R1 every answer pushed is a clone of an item of get_domain_resources(question.qname, "
                    "authoritative(include subdomains)) that passed a filter whose decision table is match_qclass(question.qclass) AND "
                    "match_qtype(question.qtype); R2 additional records come only from get_domain_resources(srv.target, authoritative(false)) "
                    "filtered by (A or AAAA) AND the question class; R3 the reply is new_reply(query id), the unicast flag is set only under "
                    "question.unicast_response and None is returned iff no answer was pushed; R4 trie keys keep label boundaries; "
                    "R5 registering a record stores it as Authoritative unconditionally (replacing a cached copy); R6 remove_resource_record "
                    "removes the given record only (the owner's node is dropped only once its map is empty).")
    b = ctx.must_find(report, "simple_mdns::build_reply")
    gk = ctx.must_find(report, "simple_mdns::resource_record_manager::get_key")
    if b is None or gk is None:
        return report.finish()
    defs = mu.defs_of(b)
    # the two filter closures by role: the one whose output is cloned into reply.additional_records (through extend) and the other
    # one (answers); a helper extracted around either has been inlined back by the fact loader
    filt_all = [t for bi, t in mu.calls(b, r"^std::iter::Iterator::filter$")]
    ext_all = mu.calls(b, r"HashSet<T, S, A> as std::iter::Extend<T>>::extend$")
    c0 = c1 = None
    if len(filt_all) == 2 and len(ext_all) == 1:
        in_ext = [t for n, t in chain_of(b, defs, mu.op_local(ext_all[0][1]["args"][1])) if t is not None and t["callee"]["def"] == "std::iter::Iterator::filter"]
        if len(in_ext) == 1:
            c1 = prog.bodies.get(_closure_arg(b, defs, in_ext[0]) or "")
            rest = [t for t in filt_all if t is not in_ext[0]]
            c0 = prog.bodies.get(_closure_arg(b, defs, rest[0]) or "")
    if c0 is None or c1 is None:
        report.lost_anchor("the two filter closures of build_reply (answers / additional records)")
        return report.finish()
    try:
        ok0, a0 = truth_table(ctx, report, c0, "C13-R1", lambda qc, qa, qaaaa, qo: int(qc and qo), "the answer filter", b, defs)
        if ok0 and (a0["class"] != {"<opaque question.qclass>"} or a0["type"] != {"<opaque question.qtype>"}):
            viol(report, "C13-R1", c0, "filter-args", "the answer filter matches against %s / %s instead of the question's class and type" % (
                sorted(a0["class"]), sorted(a0["type"])))
        ok1, a1 = truth_table(ctx, report, c1, "C13-R2", lambda qc, qa, qaaaa, qo: int((qa or qaaaa) and qc), "the additional-record filter", b, defs)
        if ok1 and a1["class"] != {"<opaque question.qclass>"}:
            viol(report, "C13-R2", c1, "filter-args", "the additional-record filter matches the class against %s instead of the question's class" % sorted(a1["class"]))
        report.sample({"closure": c0.qname, "decision_table": "true iff match_qclass(question.qclass) and match_qtype(question.qtype)"})
    except NotATable as e:
        viol(report, "C13-R1", c0, "not-a-table", "a filter closure is not a loop-free decision table: %s" % e)
    # ---- provenance of answers
    pushes = mu.calls(b, r"^std::vec::Vec::<T, A>::push$")
    ans = [(bi, t) for bi, t in pushes if _field_of_first_arg(b, defs, t) == "answers"]
    adds = [(bi, t) for bi, t in pushes if _field_of_first_arg(b, defs, t) == "additional_records"]
    # `reply.additional_records.extend(set)` moves the same elements as a loop of pushes over the set
    for bi, t in mu.calls(b, r"^<std::vec::Vec<T, A> as std::iter::Extend<T>>::extend$"):
        if _field_of_first_arg(b, defs, t) == "additional_records":
            src = mu.origin_local(b, defs, mu.op_local(t["args"][1]))
            hs = _ref_base(b, defs, ext_all[0][1]["args"][0]) if ext_all else None
            if src is not None and hs is not None and src == mu.origin_local(b, defs, hs):
                adds.append((bi, t))
    report.count(2)
    if len(ans) != 1 or len(adds) != 1:
        viol(report, "C13-R1", b, "pushes", "expected one push to reply.answers and one to reply.additional_records (found %d / %d)" % (len(ans), len(adds)))
    else:
        ch = [n for n, t in chain_of(b, defs, mu.op_local(ans[0][1]["args"][1]))]
        want_seq = ["Clone>::clone", "place:", "Filter<I, P> as std::iter::Iterator>::next"]
        flat = " | ".join(ch)
        filt = [t for bi, t in mu.calls(b, r"^std::iter::Iterator::filter$")]
        okp = "Clone>::clone" in flat and "Filter<I, P> as std::iter::Iterator>::next" in flat
        # the filter that feeds the loop is closure#0 over the items of get_domain_resources(question.qname, authoritative(true))
        f0 = [t for t in filt if _closure_arg(b, defs, t) == c0.id]
        gdr = mu.calls(b, r"ResourceRecordManager::<'a>::get_domain_resources$")
        auth = mu.calls(b, r"DomainResourceFilter::authoritative$")
        flags = sorted(int(t["args"][0]["k"]["v"]) for bi, t in auth if t["args"][0]["o"] == "const")
        names_ok = len(gdr) == 2 and _arg_field(b, defs, gdr[0][1]["args"][1]) == "qname" and _arg_field(b, defs, gdr[1][1]["args"][1]) == "target"
        # every item that passed the filter is pushed: the push lies on every path round the answer loop (no `continue`
        # that drops a matching record, e.g. a de-duplication by type)
        import loops as _loops
        lps_b, _irr_b, dom_b = _loops.natural_loops(b)
        pbi = ans[0][0]
        inner = [(h, info) for h, info in lps_b.items() if pbi in info["body"]]
        if inner:
            h0, info0 = sorted(inner, key=lambda x: len(x[1]["body"]))[0]
            skips = [u for u in info0["body"] if h0 in b.successors(u) and pbi not in dom_b[u]]
            report.count()
            if skips:
                viol(report, "C13-R1", b, "dropped-answer", "an iteration of the answer loop can return to the loop head without pushing the record "
                     "that passed the type / class filter (back edge from bb%s): a registered record matching the question is left out" % skips)
            else:
                report.nontriv("every filtered record pushed")
        if okp and len(f0) == 1 and names_ok and flags != [0, 1]:
            viol(report, "C13-R2" if flags == [1, 1] else "C13-R1", b, "subdomain-flags", "the two store lookups use DomainResourceFilter::authoritative(%s): "
                 "the answer lookup must include subdomains (true) and the additional-record lookup must be restricted to the SRV target "
                 "itself (false) - %s" % (flags, "address records of names below the target would be added" if flags == [1, 1] else
                                          "subdomain owners would not be answered"))
        elif okp and len(f0) == 1 and names_ok and flags == [0, 1]:
            report.nontriv("answer provenance")
            report.sample({"answers": "clone of items of filter(closure#0) over get_domain_resources(&question.qname, authoritative(true))"})
        else:
            viol(report, "C13-R1", b, "provenance", "an answer is not a clone of an item drawn from get_domain_resources(&question.qname, "
                 "authoritative(true)) through the type/class filter (flow: %s; lookups by %s; authoritative flags %s)" % (
                     flat[:200], [_arg_field(b, defs, g[1]["args"][1]) for g in gdr], flags))
        # additional records: extend(cloned(filter(flatten(get_domain_resources(&srv.target, authoritative(false))), closure#1)))
        ext = mu.calls(b, r"HashSet<T, S, A> as std::iter::Extend<T>>::extend$")
        report.count()
        if len(ext) != 1:
            viol(report, "C13-R2", b, "additional", "additional records are not collected by one extend()")
        else:
            ch2 = [n for n, t in chain_of(b, defs, mu.op_local(ext[0][1]["args"][1]))]
            flat2 = " | ".join(ch2)
            f1 = [t for t in filt if _closure_arg(b, defs, t) == c1.id]
            need = ["Iterator::cloned", "Iterator::filter", "Iterator::flatten", "get_domain_resources"]
            if all(any(n in x for x in ch2) for n in need) and len(f1) == 1:
                # inside the `if let RData::SRV(srv) = &answer.rdata` arm
                report.nontriv("additional provenance")
                report.sample({"additional": "cloned(filter(closure#1)) over flatten(get_domain_resources(&srv.target, authoritative(false)))"})
            else:
                viol(report, "C13-R2", b, "additional", "additional records do not come from get_domain_resources(&srv.target, ..) through "
                     "flatten / the A|AAAA+class filter / cloned (flow: %s)" % flat2[:200])
    # ---- R3 id, unicast flag, None iff empty
    nr = mu.calls(b, r"Packet::<'a>::new_reply$")
    report.count()
    okid = False
    if len(nr) == 1:
        ch = chain_of(b, defs, mu.op_local(nr[0][1]["args"][0]))
        okid = bool(ch) and ch[0][0].endswith("Packet::<'a>::id") and mu.origin_local(b, defs, _ref_base(b, defs, ch[0][1]["args"][0])) == 1
    if okid:
        report.nontriv("reply id")
    else:
        viol(report, "C13-R3", b, "reply-id", "the reply is not Packet::new_reply(<id of the query packet>)")
    # the flag by role: the bool that is returned next to the reply packet - a local, or a field of a local struct that
    # carries the reply being built (and is updated through `&mut self` of helpers inlined back)
    floc = None
    for bi0, si0, s0 in [(bi0, si0, s0) for bi0, bl0 in enumerate(b.blocks) if not bl0["cleanup"] for si0, s0 in enumerate(bl0["stmts"])]:
        if s0["s"] == "assign" and s0["rv"]["k"] == "agg" and s0["rv"].get("ak") == "tuple" and len(s0["rv"]["ops"]) == 2 and \
                b.ty(s0["pl"]["t"])["s"].endswith("bool)"):
            cur = s0["rv"]["ops"][1]
            for _ in range(8):
                if cur.get("o") not in ("copy", "move"):
                    break
                loc = mu.resolve_loc(b, defs, cur["pl"])
                if loc is None:
                    break
                if loc[1]:
                    floc = loc
                    break
                d0 = mu.single_def(defs, loc[0])
                if d0 is None or d0[1] == "term" or d0[2].get("k") != "use":
                    floc = loc
                    break
                cur = d0[2]["op"]
    report.count()
    if floc is None:
        report.lost_anchor("the unicast flag returned by build_reply")
    else:
        # every write to that location: (block, source operand)
        writes = []
        for bi0, bl0 in enumerate(b.blocks):
            if bl0["cleanup"]:
                continue
            for s0 in bl0["stmts"]:
                if s0["s"] != "assign":
                    continue
                loc = mu.resolve_loc(b, defs, s0["pl"])
                if loc == floc and s0["rv"]["k"] == "use":
                    writes.append((bi0, s0["rv"]["op"]))
                elif loc == floc:
                    writes.append((bi0, None))
                elif floc[1] and loc == (floc[0], ()) and s0["rv"]["k"] == "agg" and len(s0["rv"]["ops"]) > floc[1][0]:
                    writes.append((bi0, s0["rv"]["ops"][floc[1][0]]))
            t0 = bl0["term"]
            if t0["t"] == "call" and mu.resolve_loc(b, defs, t0["dest"]) == floc:
                writes.append((bi0, None))

        def is_const(op, v):
            return op is not None and op["o"] == "const" and op["k"].get("c") == "int" and int(op["k"]["v"]) == v

        def reads_flag(op):
            if op is None or op["o"] not in ("copy", "move"):
                return False
            if any(isinstance(p, dict) and p.get("n") == "unicast_response" for p in op["pl"]["p"]) and \
                    mu.resolve_loc(b, defs, op["pl"]) != floc:
                return True
            l = mu.op_local(op)
            dd = mu.single_def(defs, l) if l is not None else None
            return dd is not None and dd[1] != "term" and dd[2]["k"] == "use" and reads_flag(dd[2]["op"])
        inits = [w for w in writes if is_const(w[1], 0)]
        others = [w for w in writes if w not in inits]
        dom = mu.dominators(b)
        good = len(inits) == 1 and len(others) >= 1
        for (wbi, op) in others:
            src_ok = reads_flag(op) or is_const(op, 1)
            guarded = False
            for bi2, bl2 in enumerate(b.blocks):
                t2 = bl2["term"]
                if bl2["cleanup"] or t2["t"] != "switch" or not reads_flag(t2["discr"]):
                    continue
                false_t = [tg for v, tg in t2["arms"] if int(v) == 0]
                true_t = t2["otherwise"]
                if true_t in dom.get(wbi, ()) and (not false_t or false_t[0] not in dom.get(wbi, ())):
                    guarded = True
            good = good and src_ok and guarded
        if good:
            report.nontriv("unicast flag")
        else:
            viol(report, "C13-R3", b, "unicast", "unicast_response is not `false` unless assigned from question.unicast_response under that flag")
    ie = mu.calls(b, r"^std::vec::Vec::<T, A>::is_empty$")
    report.count()
    oke = False
    if len(ie) == 1 and _field_of_first_arg(b, defs, ie[0][1]) == "answers":
        sw = b.blocks[ie[0][1]["target"]]["term"]
        if sw["t"] == "switch":
            true_t = sw["otherwise"]
            false_t = [tg for v, tg in sw["arms"] if int(v) == 0]
            nones = [x[0] for x in mu.aggregates(b, "option::Option", "None")]
            somes = [x[0] for x in mu.aggregates(b, "option::Option", "Some")]
            # `!is_empty()`: the Not may be folded into the branch order
            rt, rf = mu.reachable_from(b, true_t), mu.reachable_from(b, false_t[0]) if false_t else set()
            neg = _is_negated(b, sw)
            if neg:
                rt, rf = rf, rt
            oke = any(n in rt and n not in rf for n in nones) and any(s in rf and s not in rt for s in somes)
    if not oke and len(ie) == 1 and _field_of_first_arg(b, defs, ie[0][1]) == "answers":
        # `(!answers.is_empty()).then_some((reply, unicast))` as the returned value
        ts = mu.calls(b, r"<impl bool>::then_some$")
        if len(ts) == 1:
            cond = mu.op_local(ts[0][1]["args"][0])
            neg = 0
            cur = cond
            for _ in range(6):
                d = mu.single_def(defs, cur) if cur is not None else None
                if d is None:
                    break
                if d[1] == "term":
                    if d[2] is ie[0][1]:
                        # Some exactly when NOT empty: an odd number of negations, and the Option is what the function returns
                        ret_ok = mu.origin_local(b, defs, 0) == ts[0][1]["dest"]["l"] or ts[0][1]["dest"]["l"] == 0
                        oke = (neg % 2 == 1) and ret_ok
                    break
                rv = d[2]
                if rv.get("k") == "un" and rv.get("op") == "Not":
                    neg += 1
                    cur = mu.op_local(rv["a"])
                elif rv.get("k") == "use":
                    cur = mu.op_local(rv["op"])
                else:
                    break
    if oke:
        report.nontriv("none iff empty")
    else:
        viol(report, "C13-R3", b, "none-iff-empty", "None is not returned exactly when reply.answers is empty")
    # ---- R4 key boundaries
    # labels are arbitrary bytes, so only a length prefix makes the per-label encoding prefix-free (a leading or trailing
    # separator byte does not: `.com._tcp._res1` is a byte prefix of `.com._tcp._res10`): some byte emitted per label
    # (once / push / insert, in get_key or a closure of it) must be computed from len() of the label's bytes
    report.count()
    gfam = [gk] + mu.closures_of(prog, gk)
    delim = False
    n_emit = 0
    for gc in gfam:
        gdefs = mu.defs_of(gc)
        for _, et in mu.calls(gc, r"^std::iter::once$|Vec::<T, A>::(push|insert)$"):
            n_emit += 1
            cur = mu.op_local(et["args"][-1])
            for _ in range(6):
                d = mu.single_def(gdefs, cur) if cur is not None else None
                if d is None:
                    break
                if d[1] == "term":
                    cal = d[2]["callee"]["def"] if d[2]["callee"] else ""
                    if re.search(r"(Vec::<T, A>|<impl \[T\]>|String|<impl str>)::len$", cal):
                        delim = True
                    break
                rv = d[2]
                if rv.get("k") in ("cast", "use") and rv["op"].get("o") in ("copy", "move"):
                    cur = mu.op_local(rv["op"])
                else:
                    break
    if delim:
        report.nontriv("key boundaries")
        report.sample({"fn": gk.qname, "per_label": "length byte + label bytes"})
    else:
        viol(report, "C13-R4", gk, "key-boundaries", "the per-label part of the trie key carries no length prefix (%d single-byte emitters, none "
             "computed from a len()): names that split the same characters differently (printer.office.local / officeprinter.local) "
             "or whose first label extends another's (_res1 / _res10 with a separator byte) share a key or a key prefix, so "
             "label-wise matching is impossible" % n_emit)
    # ---- R5 a registered record is stored as Authoritative whatever was cached for it before
    aa = prog.find("simple_mdns::ResourceRecordManager::add_authoritative_resource")
    report.count()
    if aa is None:
        report.lost_anchor("ResourceRecordManager::add_authoritative_resource")
    else:
        insa = mu.calls(aa, r"HashMap::<K, V, S, A>::insert$")
        soft = mu.calls(aa, r"HashMap::<K, V, S, A>::(entry|try_insert|get_or_insert_with)$|Entry::<'a, K, V>::or_insert(_with)?$")
        auth_vals = mu.aggregates(aa, "ResourceRecordType", "Authoritative")
        if len(insa) >= 2 and not soft and auth_vals:
            report.nontriv("authoritative registration replaces")
        else:
            viol(report, "C13-R5", aa, "registration", "add_authoritative_resource does not unconditionally store the record as Authoritative in "
                 "both the existing-name and new-name paths (%d insert calls, non-replacing calls %s): a record that was cached before "
                 "being registered stays Cached and is left out of replies" % (len(insa), [t["callee"]["name"] for _, t in soft]))
    # ---- R6 removing a record removes that record only (every other registered record stays answerable)
    import c20
    rm = prog.find("simple_mdns::ResourceRecordManager::remove_resource_record")
    if rm is None:
        report.lost_anchor("ResourceRecordManager::remove_resource_record")
    else:
        c20.removal_precision(ctx, report, "C13-R6", rm)
    report.assumptions += ["that trie lookup is label-wise equality / subdomain for all stores is not decided (value-level); R4 is a necessary condition",
                           "match_qtype / match_qclass are C18-R4"]
    return report.finish()


def _ref_base(b, defs, op):
    l = mu.op_local(op)
    st = mu.trace_back(b, defs, l if l is not None else -1)
    for s in st:
        if s[2] != "term" and s[3].get("k") == "ref":
            return s[3]["pl"]["l"]
    return l


def _field_of_first_arg(b, defs, t):
    l = mu.op_local(t["args"][0])
    for s in mu.trace_back(b, defs, l if l is not None else -1):
        if s[2] != "term" and s[3].get("k") == "ref":
            fs = [p["n"] for p in s[3]["pl"]["p"] if isinstance(p, dict) and "f" in p]
            if fs:
                return fs[-1]
    return None


def _arg_field(b, defs, op):
    l = mu.op_local(op)
    for s in mu.trace_back(b, defs, l if l is not None else -1):
        if s[2] != "term" and s[3].get("k") == "ref":
            fs = [p["n"] for p in s[3]["pl"]["p"] if isinstance(p, dict) and "f" in p]
            if fs:
                return fs[-1]
    return None


def _closure_arg(b, defs, t):
    l = mu.op_local(t["args"][1]) if len(t["args"]) > 1 else None
    d = mu.single_def(defs, l) if l is not None else None
    if d is not None and d[1] != "term" and d[2].get("k") == "agg" and d[2].get("ak") == "closure":
        return d[2]["def"]
    return None


def _is_negated(b, sw):
    d = sw["discr"]
    l = mu.op_local(d)
    defs = mu.defs_of(b)
    dd = mu.single_def(defs, l) if l is not None else None
    return dd is not None and dd[1] != "term" and dd[2].get("k") == "un" and dd[2].get("op") == "Not"
