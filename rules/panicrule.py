"""Panic-freedom rule shared by C01 / C04 / C06 / C12 / C14:
every panic-capable construct reachable (A1) from the roots is discharged by the numeric
analysis (A3/A4), audited with a structural predicate that holds on this tree, or excluded
by a stated precondition of the property."""
import re
from common import Violation, where_of, load_tsv
import audits


def site_kinds(ctx, reach):
    out = {}
    for bid in reach:
        an = ctx.whole.results.get(bid)
        if an is None:
            continue
        for o in an.obligations:
            out[o.kind] = out.get(o.kind, 0) + 1
    return out


def check_panics(ctx, report, roots, rule, prop, skip_kinds=(), only_bodies=None, lock_rule=False, root_ids=None):
    prog, cg, whole = ctx.prog, ctx.cg, ctx.whole
    reach = cg.reachable([r.id for r in roots])
    bodies = [b for b in reach if only_bodies is None or b in only_bodies]
    audited_rows = [r for r in load_tsv("audited_sites.tsv")]
    assumed_rows = [r for r in load_tsv("assumed_preconditions.tsv") if prop in r[0].split(",")]
    audited_used, assumed_used = [], []
    trusted_crates = set(r[0] for r in load_tsv("trusted_macros.tsv"))
    trusted_sites = {}
    n_sites = n_ok = 0
    kinds = {}
    # recursion makes stack depth input-dependent: not allowed under attacker-facing roots
    rec = [b for b in bodies if b in whole.recursive]
    for b in rec:
        body = prog.bodies[b]
        report.violate(Violation(report.key(body.qname, rule, "recursion", ""), "%s:%d" % (body.file, body.line), rule,
                                 "function %s is (mutually) recursive and reachable from %s: stack depth is not bounded"
                                 % (body.qname, roots[0].qname), cg.path_to(reach, b)))
    for (bid, bi) in cg.indirect:
        if bid in reach:
            body = prog.bodies[bid]
            report.violate(Violation(report.key(body.qname, rule, "indirect-call", ""), "%s:%d" % (body.file, body.line),
                                     rule, "call through a function pointer cannot be resolved"))
    ext_seen = {}
    for bid in sorted(bodies, key=lambda x: prog.bodies[x].qname):
        body = prog.bodies[bid]
        an = whole.results.get(bid)
        if an is None:
            report.violate(Violation(report.key(body.qname, rule, "unanalysed", ""), "%s:%d" % (body.file, body.line), rule,
                                     "body could not be analysed: %s" % whole.errors.get(bid)))
            continue
        for d, bi in cg.ext_calls.get(bid, []):
            ext_seen[d] = ext_seen.get(d, 0) + 1
        for o in an.obligations:
            if o.kind in skip_kinds:
                continue
            n_sites += 1
            kinds[o.kind] = kinds.get(o.kind, 0) + 1
            report.count()
            ident = "%s#%d#%s" % (body.qname, o.bi, o.kind)
            ok = o.ok
            if ok and o.lifted and root_ids is not None and bid in root_ids:
                ok = False    # a root is called with arbitrary arguments: its preconditions cannot be assumed
            if ok:
                n_ok += 1
                if o.why != "A-OVF":
                    report.nontriv(ident)
                    if o.goals:
                        report.sample({"fn": body.qname, "site": o.snippet, "kind": o.kind,
                                       "obligation": "; ".join(t for _, t in o.goals),
                                       "discharged_from": "branch facts / summaries (%d facts in scope)" % 0})
                continue
            if o.exp and any(len(e) > 2 and e[2] in trusted_crates and e[0] == "bang" for e in o.exp):
                mname = [e for e in o.exp if len(e) > 2 and e[2] in trusted_crates][-1]
                trusted_sites["%s!(%s)" % (mname[1], mname[2])] = trusted_sites.get("%s!(%s)" % (mname[1], mname[2]), 0) + 1
                continue
            key = report.key(body.qname, rule, o.kind, o.snippet)
            # audited?
            site_id = "%s | %s | %s" % (body.qname, o.kind, " ".join(o.snippet.split()))
            aud = None
            for r in audited_rows:
                if r[0] == site_id or (r[0].endswith("| *") and site_id.startswith(r[0][:-1])) or \
                        (r[0].startswith("* | ") and r[0].endswith(" | *") and r[0].split(" | ")[1] == o.kind):
                    aud = r       # `| *`: any spelling of the site in that function; the predicate decides
                    break
            if aud is not None:
                ok, why = audits.validate(ctx, aud[1], body, o)
                if ok:
                    n_ok += 1
                    audited_used.append({"site": aud[0], "predicate": aud[1], "holds_because": why})
                    report.nontriv(ident)
                    continue
                msg_extra = "audited-site predicate %s no longer holds: %s" % (aud[1], why)
            else:
                msg_extra = ""
            asm = None
            for r in assumed_rows:
                if r[1] == site_id:
                    asm = r
                    break
                # `| *text*`: any spelling of the site in that function whose source text mentions `text`
                # (e.g. the application-configured `self.query_timeout`, whichever way the sum is written)
                mm = re.match(r"^(.* \| )\*(.*)\*$", r[1])
                if mm and site_id.startswith(mm.group(1)) and mm.group(2) in site_id[len(mm.group(1)):]:
                    asm = r
                    break
            if asm is not None:
                assumed_used.append({"site": asm[1], "excluded_by": asm[2]})
                continue
            if lock_rule and o.kind == "call:lock_unwrap":
                # decided by the caller (C14-R2)
                report.extra.setdefault("lock_unwraps", []).append(key)
                continue
            path = [prog.bodies[x].qname for x in cg.path_to(reach, bid)]
            msg = "%s: %s at `%s` in %s is not discharged: %s" % (
                rule, o.kind, o.snippet, body.qname, o.detail or "no discharge rule")
            if msg_extra:
                msg += "\n" + msg_extra
            report.violate(Violation(key, where_of(body, o.span), rule, msg, path,
                                     {"goals": "; ".join("%s  [%r <= 0]" % (t, e) for e, t in o.goals)}))
    report.obligations += n_sites
    report.discharged += n_ok
    report.extra.setdefault("sites_by_kind", {}).update(kinds)
    report.extra.setdefault("audited", []).extend(audited_used)
    report.extra.setdefault("assumed", []).extend(assumed_used)
    report.extra["sites_inside_trusted_macro_expansions"] = trusted_sites
    report.extra["reachable_functions"] = len(reach)
    report.extra["external_callees_assumed_total"] = dict(sorted(ext_seen.items())[:400])
    return reach
