"""C09 EDNS(0) data is carried per RFC 6891."""
from common import Report, Violation, load_tsv
import tables
from tables import Evaluator, EnumVal, Opaque, NotATable, Extractor
from hdrmodel import Header12
import mirutil as mu


def viol(report, rule, what, msg):
    report.violate(Violation(report.key(what, rule, "table", msg[:100]), "-", rule, "%s: %s" % (rule, msg)))


def run(ctx):
    prog = ctx.prog
    report = Report("C09", ctx, "R1 the TTL bit layout of the OPT pseudo-record (encode_ttl, extract_rcode_from_ttl and the version "
                    "extraction in OPT::parse), extracted as tables and evaluated for every version x every response code / every "
                    "TTL pattern against RFC 6891 6.1.3; R2 OPT::parse reads CLASS@+2 as the UDP payload size and TTL@+4; "
                    "R3/R4 structural: one OPT record is synthesised iff header.opt is Some and counted in ARCOUNT, and the parser "
                    "lifts the OPT record out of the additional section; R5 on every Ok return of OPT::parse the numeric domain "
                    "entails cursor = end of the RDATA: the option loop leaves no trailing option unread.")
    rfc = {r[0]: int(r[1], 16) for r in load_tsv("edns.tsv")}
    consts = {k["name"]: int(k["v"]) for k in prog.consts.values()
              if k["crate"] == "simple_dns" and "rdata::opt::masks" in k["def"] and k["v"] is not None}
    report.floor("OPT mask constants", len(consts), 2)
    for n, want in rfc.items():
        report.count()
        report.nontriv("const:" + n)
        if consts.get(n) != want:
            viol(report, "C09-R1", n, "opt::masks::%s = %s but RFC 6891 6.1.3 places the field at %#010x (failing case: a BADVERS "
                 "reply with TTL 0x01000000 from a conforming peer is read as version 0 / NoError)" % (
                     n, ("%#010x" % consts[n]) if n in consts else "missing", want))
    B = {}
    for name, q in [("encode", "simple_dns::OPT::encode_ttl"), ("extract", "simple_dns::OPT::extract_rcode_from_ttl"),
                    ("parse", "simple_dns::<OPT as WireFormat>::parse"), ("rcode_from", "simple_dns::<RCODE as From<u16>>::from"),
                    ("opt_rr", "simple_dns::Header::opt_rr"), ("write_header", "simple_dns::Packet::write_header"),
                    ("pkt_write", "simple_dns::Packet::write_to"), ("pkt_writec", "simple_dns::Packet::write_compressed_to"),
                    ("pkt_parse", "simple_dns::Packet::parse")]:
        B[name] = ctx.must_find(report, q)
    if any(v is None for v in B.values()):
        return report.finish()
    radt = prog.adts["simple_dns::dns::RCODE"]
    rcodes = [(v["name"], int(v["discr"])) for v in radt["variants"]]
    named = {d: n for n, d in rcodes if n != "Reserved"}
    ev = Evaluator(prog)
    try:
        bad = []
        n = 0
        for version in range(256):
            for rn, rd in rcodes:
                hdr = {"response_code": EnumVal("RCODE", rn)}
                opt = {"version": version, "udp_packet_size": 1232}
                ttl = ev.call(B["encode"], [opt, hdr])
                n += 1
                want = (((rd >> 4) & 0xFF) << 24) | (version << 16)
                if ttl != want:
                    bad.append("encode_ttl(version %d, rcode %s=%d) = %s, RFC 6891 layout gives %#010x" % (
                        version, rn, rd, ("%#010x" % ttl) if isinstance(ttl, int) else repr(ttl), want))
                    break
            if bad:
                break
        # reader: every extended-rcode byte x every header nibble
        for ext in range(256):
            for low in range(16):
                ttl = (ext << 24) | (0x2A << 16) | 0x8000
                hdr = {"response_code": EnumVal("RCODE", named.get(low, "Reserved"))}
                got = ev.call(B["extract"], [ttl, hdr])
                n += 1
                code = (ext << 4) | low
                want = EnumVal("RCODE", named.get(code, "Reserved"))
                if low in named and got != want:
                    bad.append("extract_rcode_from_ttl(ttl %#010x, header rcode %d) = %r, RFC 6891 gives %r" % (ttl, low, got, want))
                    break
            if len(bad) > 1:
                break
        # the split itself: the header carries only the low four bits of the 12-bit code, whatever the code is
        gf = prog.find("simple_dns::Header::get_flags")
        if gf is None:
            report.lost_anchor("Header::get_flags")
        else:
            evh = Evaluator(prog, Header12({}, 0x87B0).hooks())
            for rn, rd in rcodes:
                hdr = {"id": 0, "z_flags": 0, "opcode": EnumVal("OPCODE", "StandardQuery"), "response_code": EnumVal("RCODE", rn),
                       "opt": EnumVal("Option", "None")}
                w = evh.call(gf, [hdr])
                n += 1
                if not isinstance(w, int) or (w & 0xFFF0) != 0 or (rn != "Reserved" and (w & 0xF) != (rd & 0xF)):
                    bad.append("Header::get_flags writes response code %s=%d as flags word %s: only its low 4 bits belong in the header "
                               "(the upper 8 go to the OPT TTL)" % (rn, rd, ("%#06x" % w) if isinstance(w, int) else repr(w)))
        report.count(n)
        report.nontriv("ttl tables")
        report.extra["ttl_cases"] = n
        for msg in bad[:4]:
            viol(report, "C09-R1", "OPT TTL layout", msg)
        report.sample({"table": "encode_ttl", "example": "version 1, rcode BADVERS(16) -> 0x01010000"})
    except NotATable as e:
        viol(report, "C09-R1", "OPT TTL layout", "encode_ttl / extract_rcode_from_ttl is not a decision table: %s" % e)
    # ---- version / udp size read by OPT::parse (prefix of the body, before the option loop)
    leaves = Extractor(prog, B["parse"], stop_at_loops=True).run()
    loop_leaves = [l for l in leaves if l[1][0] == "loop"]
    report.floor("OPT::parse paths reaching the option loop", len(loop_leaves), 1)
    # the locals that become OPT.version / OPT.udp_packet_size, found through the OPT aggregate (not by name)
    names = {}
    pdefs = mu.defs_of(B["parse"])
    for _bi, _si, s0 in mu.aggregates(B["parse"], "opt::OPT"):
        for fname, op in zip(s0["rv"]["fields"], s0["rv"]["ops"]):
            l0 = mu.origin_local(B["parse"], pdefs, mu.op_local(op))
            if l0 is not None:
                names[fname] = l0
    for conds, (_, env) in loop_leaves[:1]:
        for ttl in (0x01020000, 0xAB00CDEF, 0x00FF8000):
            words = {(2, 4): 1232, (4, 8): ttl}
            m = Header12(words, 0, length=64)
            h = m.hooks()
            h[("call", "core::num::<impl u32>::from_be_bytes")] = h[("call", "core::num::<impl u16>::from_be_bytes")]
            e2 = Evaluator(prog, h)
            report.count()
            if "version" in names and "udp_packet_size" in names:
                v = e2.term(env.get(names["version"], ("opaque", "unset")), [("data",), 0])
                u = e2.term(env.get(names["udp_packet_size"], ("opaque", "unset")), [("data",), 0])
                if v != (ttl >> 16) & 0xFF:
                    viol(report, "C09-R1", "OPT::parse version", "OPT::parse reads version %r from TTL %#010x; RFC 6891 puts it in "
                         "bits 23..16 (= %d)" % (v, ttl, (ttl >> 16) & 0xFF))
                if u != 1232 or (2, 4) not in m.reads or (4, 8) not in m.reads:
                    viol(report, "C09-R2", "OPT::parse class slot", "OPT::parse takes the UDP payload size from bytes %r (value %r); "
                         "it is the CLASS field at +2..+4, TTL at +4..+8" % (sorted(set(m.reads)), u))
                report.nontriv("parse prefix")
            else:
                report.lost_anchor("the values stored in OPT.version / OPT.udp_packet_size by OPT::parse")
    # ---- R3: OPT record synthesised iff header.opt is Some, and counted once
    b = B["opt_rr"]
    maps = mu.calls(b, r"^std::option::Option::<T>::map$")
    asref = mu.calls(b, r"^std::option::Option::<T>::as_ref$")
    report.count()
    # evaluated on both cases of header.opt: None gives no record, Some gives one OPT record (whatever the spelling:
    # `as_ref().map(..)`, `let opt = self.opt.as_ref()?; Some(..)`, a match)
    shape_ok = False
    try:
        evo = Evaluator(prog)
        res = []
        for o in (EnumVal("Option", "None"), EnumVal("Option", "Some", [{"opt_codes": Opaque("codes"), "udp_packet_size": 1232, "version": 0}])):
            hdr = {"opt": o, "response_code": EnumVal("RCODE", "NoError"), "z_flags": 0, "opcode": EnumVal("OPCODE", "StandardQuery"), "id": 1}
            res.append(evo.call(b, [hdr]))
        shape_ok = isinstance(res[0], EnumVal) and res[0].v == "None" and isinstance(res[1], EnumVal) and res[1].v == "Some" and \
            res[1].f and isinstance(res[1].f[0], EnumVal) and res[1].f[0].adt == "ResourceRecord"
    except NotATable:
        shape_ok = False
    if not shape_ok and (len(maps) != 1 or len(asref) != 1):
        viol(report, "C09-R3", b.qname, "Header::opt_rr is no longer `self.opt.as_ref().map(..)`: one record iff Some cannot be shown")
    else:
        report.nontriv("opt_rr shape")
    for wn in ("pkt_write", "pkt_writec"):
        wb = B[wn]
        cs = mu.calls(wb, r"Header::<'a>::opt_rr$|Header.*::opt_rr$")
        report.count()
        if len(cs) != 1:
            viol(report, "C09-R3", wb.qname, "%s does not emit the OPT pseudo-record from header.opt_rr() exactly once" % wb.qname)
        else:
            report.nontriv("writer emits opt:" + wn)
    # placement: the OPT record belongs to the additional section - after every authority record, in both writers
    import c04
    for wn in ("pkt_write", "pkt_writec"):
        wb = B[wn]
        order = c04.packet_emission_order(ctx, wb)
        secs = [s.split(".")[-1] if s else None for fn, t, s in order]
        opt_ix = [i for i, (fn, t, s) in enumerate(order) if t == "ResourceRecord" and s is None]
        report.count()
        if len(opt_ix) != 1 or "name_servers" not in secs:
            viol(report, "C09-R3", wb.qname, "%s: cannot locate the OPT record among the emitted sections %s" % (wb.qname, secs))
        elif any(sec in secs[opt_ix[0] + 1:] for sec in ("questions", "answers", "name_servers")):
            viol(report, "C09-R3", wb.qname, "%s emits the OPT pseudo-record before the %s section (order: %s): a reader counts it as an "
                 "authority record and the last authority record as additional" % (
                     wb.qname, [x for x in secs[opt_ix[0] + 1:] if x in ("questions", "answers", "name_servers")][0],
                     [x or "OPT" for x in secs[1:]]))
        else:
            report.nontriv("opt placement:" + wn)
    wh = B["write_header"]
    issome = mu.calls(wh, r"^std::option::Option::<T>::is_some$")
    frombool = mu.calls(wh, r"From<bool> for u16>::from$")
    report.count()
    if len(issome) != 1 or len(frombool) != 1:
        viol(report, "C09-R3", wh.qname, "ARCOUNT is no longer additional_records.len() + (header.opt.is_some() as u16)")
    else:
        report.nontriv("arcount")
    # ---- R4: the parser lifts the OPT record out of the additional section (structure checked by the audited predicates)
    import audits
    pb = B["pkt_parse"]
    ext = prog.find("simple_dns::Header::extract_info_from_opt_rr")
    report.count()
    if ext is None:
        report.lost_anchor("Header::extract_info_from_opt_rr")
    else:
        class _O:
            bi = 0
        ok, why = audits.validate(ctx, "opt_record_selected_by_type_code", ext, _O())
        if not ok:
            viol(report, "C09-R4", pb.qname, "the OPT record is not lifted out of additional_records by type: %s" % why)
        else:
            report.nontriv("lift")
            report.sample({"rule": "R4", "holds_because": why})
    # ---- R5: the option loop consumes the RDATA to its end
    sm = ctx.whole.summaries.get(B["parse"].id) or {}
    report.count()
    if sm.get("ok_points") and sm.get("out_ge_len") and sm.get("out_le_len"):
        report.nontriv("options consumed")
        report.sample({"rule": "R5", "entailed": "at every Ok return of OPT::parse: *position == data.len()"})
    else:
        viol(report, "C09-R5", B["parse"].qname, "OPT::parse can return Ok with the cursor short of the end of the RDATA (summary %s): option "
             "triples at the tail (e.g. a final option with an empty value, exactly 4 bytes) are dropped without an error" % (
                 {k: sm.get(k) for k in ("ok_points", "out_le_len", "out_ge_len")},))
    report.assumptions += ["RCODE discriminants as exported by the compiler", "std calls in OPT::parse modelled by contract"]
    # R2 (writer side): the CLASS slot of the OPT record carries udp_packet_size, all 16 bits (values evaluated from the writer's table)
    import c02
    c02.class_word_rule(ctx, report, "C09-R2", only_opt=True)
    return report.finish()
