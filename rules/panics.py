"""A2: panic-site catalogue + whole-program driver for the zone analysis (bottom-up summaries)."""
import os
import re
import zone
from lin import Lin, entails, ub, lb
from facts import VERIF


def load_catalogue():
    rows = []
    with open(os.path.join(VERIF, "tables", "std_partial.tsv")) as fh:
        for line in fh:
            line = line.rstrip("\n")
            if not line or line.startswith("#"):
                continue
            parts = line.split("\t")
            rows.append((re.compile(parts[0]), parts[1], parts[2], parts[3] if len(parts) > 3 else ""))
    cache = {}

    def cat(name):
        if name in cache:
            return cache[name]
        r = None
        for rx, kind, rule, why in rows:
            if rx.search(name):
                r = (kind, rule, why)
                break
        cache[name] = r
        return r
    return cat, rows


def load_total():
    rows = []
    p = os.path.join(VERIF, "tables", "std_total.tsv")
    if os.path.exists(p):
        with open(p) as fh:
            for line in fh:
                line = line.rstrip("\n")
                if not line or line.startswith("#"):
                    continue
                rows.append(re.compile(line.split("\t")[0]))
    return rows


def summarise_bool(an):
    """`true`-post of a bool function: facts over the lengths reachable from its reference parameters that hold
    whenever the function can return true"""
    b = an.b
    if b.local_ty(0)["k"] != "bool":
        return None
    common = None
    n = 0
    for bi, st, v in an.ok_points:
        if v is not None and v[0] == "lin" and v[1].is_const() and v[1].c == 0:
            continue
        n += 1
        fs = set()
        for f in st.facts:
            if f.is_const():
                continue
            if all(re.match(r"^len\(\(\*_\d+\)[^()]*\)$", s0) for s0 in f.syms()):
                fs.add(f)
        common = fs if common is None else (common & fs)
    if not n or not common:
        return None
    return {"true_facts": sorted(common, key=repr)}


def apply_ok(an, st, cs):
    """state after taking the Ok edge of the call whose result is passed through as this function's result"""
    info = an.pending.get(cs, {})
    st2 = st.copy()
    for f in info.get("variant_facts", {}).get(0, []):
        st2.facts.add(f)
    for (k, val) in info.get("variant_stores", {}).get(0, []):
        st2.store[k] = val
    return st2


def summarise_writer(an):
    """Ok-post of a function writing to a `&mut T` writer: the writer position does not move backwards"""
    b = an.b
    wk = None
    for i in range(1, b.argc + 1):
        t = b.local_ty(i)
        if t["k"] == "ref" and t["mut"] and b.ty(t["t"])["k"] == "param":
            wk = "(*_%d)" % i
    if wk is None:
        return None
    ret_t = b.local_ty(0)
    is_result = ret_t["k"] == "adt" and ret_t["name"].endswith("::Result")
    entry = Lin.sym("wpos%s@entry" % wk)
    points = []
    if is_result:
        for bi, st, v in an.ok_points:
            if v is None:
                return None
            if v[0] == "adt" and v[2] == "Ok":
                points.append(st)
            elif v[0] == "adt" and v[2] == "Err":
                continue
            elif v[0] == "callres":
                points.append(apply_ok(an, st, v[1]))
            else:
                return None
    else:
        points = [st for bi, st in an.ret_states]
    if not points:
        return None
    best = None
    for st in points:
        out = st.store.get("wpos:" + wk)
        if out is None or out[0] != "lin":
            return None
        m_here = None
        for m in (12, 10, 4, 3, 2, 1, 0):
            if entails(st.facts, an.iv, entry + m - out[1], an.depth):
                m_here = m
                break
        if m_here is None:
            return None
        best = m_here if best is None else min(best, m_here)
    return {"w_adv_min": best}


def summarise_retlin(an):
    """integer-returning functions whose result is one linear form over lengths of data behind `self`"""
    b = an.b
    if b.local_ty(0)["k"] != "int" or b.argc < 1:
        return None
    vals = []
    for bi, st in an.ret_states:
        v = st.store.get("_0")
        if v is None or v[0] != "lin":
            return None
        vals.append(v[1])
    if not vals or any(v != vals[0] for v in vals[1:]):
        return None
    for s0 in vals[0].syms():
        if "(*_1)" not in s0 or not re.match(r"^(len|N\[[^\]]*\]|SUM\[[^\]]*\])\(", s0):
            return None
    return {"ret_lin": vals[0]}


def summarise_iter(an):
    """functions that return `<field of a reference parameter>.iter()`"""
    vals = [v for bi, st, v in an.ok_points]
    if not vals or any(v is None or v[0] not in ("iter", "enumiter") for v in vals):
        return None
    if len(set(vals)) != 1 or not re.match(r"^\(\*_\d+\)", vals[0][1]):
        return None
    return {"ret_iter": (vals[0][0], vals[0][1])}


def summarise(an):
    """Ok-post of a cursor-style function: facts over (cursor_in, cursor_out, len(data))"""
    b = an.b
    cursor = None
    data = None
    for i in range(1, b.argc + 1):
        t = b.local_ty(i)
        if t["k"] == "ref" and t["mut"] and b.ty(t["t"])["k"] == "int":
            cursor = "(*_%d)" % i
        if t["k"] == "ref" and not t["mut"] and b.ty(t["t"])["k"] == "slice" and data is None:
            data = "_%d" % i
    if cursor is None:
        return summarise_writer(an)
    ret_t = b.local_ty(0)
    is_result = ret_t["k"] == "adt" and ret_t["name"].endswith("::Result")
    entry = Lin.sym("%s@entry" % cursor)
    adv_min = None
    adv_max = None
    out_le = True
    out_ge = True
    n = 0
    points = []
    if is_result:
        for bi, st, v in an.ok_points:
            if v is None:
                return {"adv_min": None, "out_le_len": False, "ok_points": 0, "unknown_ret": True}
            if v[0] == "adt" and v[2] == "Ok":
                points.append((st, None))
            elif v[0] == "adt" and v[2] == "Err":
                continue
            elif v[0] == "callres":
                # pass-through of a callee's result (tail call / Result::map): Ok-facts of that call apply
                points.append((apply_ok(an, st, v[1]), None))
            else:
                return {"adv_min": None, "out_le_len": False, "ok_points": 0, "unknown_ret": True}
    else:
        for bi, st in an.ret_states:
            points.append((st, None))
    for st, _ in points:
        out = st.store.get(cursor)
        if out is None or out[0] != "lin":
            return {"adv_min": None, "out_le_len": False, "ok_points": len(points)}
        out = out[1]
        n += 1
        # largest m in a small candidate set with  entry + m <= out
        m_here = None
        for m in (12, 10, 8, 6, 4, 3, 2, 1, 0):
            if entails(st.facts, an.iv, entry + m - out, an.depth):
                m_here = m
                break
        if m_here is None:
            adv_min = -1
        elif adv_min is None or (adv_min >= 0 and m_here < adv_min):
            adv_min = m_here
        if data is not None:
            ln = st.store.get("len:" + data)
            if ln is None or not entails(st.facts, an.iv, out - ln[1], an.depth):
                out_le = False
            if ln is None or not entails(st.facts, an.iv, ln[1] - out, an.depth):
                out_ge = False
        else:
            out_le = False
            out_ge = False
    if n == 0:
        return {"adv_min": None, "out_le_len": False, "ok_points": 0}
    return {"adv_min": adv_min if (adv_min is not None and adv_min >= 0) else None, "out_le_len": out_le,
            "out_ge_len": out_ge, "ok_points": n}


class Whole:
    """runs the zone analysis over every body, callees first"""

    def __init__(self, prog, cg, depth=3):
        self.prog = prog
        self.cg = cg
        self.cat, self.cat_rows = load_catalogue()
        self.summaries = {}
        self.results = {}
        self.depth = depth
        self.errors = {}
        self.preconds = {}
        self.pre_failed = {}
        self.pre_proved = {}
        order = self._order()
        for bid in order:
            b = prog.bodies[bid]
            try:
                an = zone.Analyzer(b, self.summaries, self.cat, depth)
                disp = {}
                for (y, bi, why) in self.cg.edges.get(bid, []):
                    if why.startswith("instantiated") or why in ("cha", "default-method"):
                        disp.setdefault(bi, []).append(y)
                an.dispatch = disp
                an.run()
            except RecursionError as e:  # pragma: no cover
                self.errors[bid] = repr(e)
                continue
            self.results[bid] = an
            s = summarise(an)
            if s is None:
                s = summarise_bool(an)
            if s is None:
                s = summarise_iter(an)
            if s is None:
                s = summarise_retlin(an)
            if s is not None:
                self.summaries[bid] = s
            self._preconditions(b, an)
        self._finish_preconditions()
        try:
            self._type_invariants()
        except (KeyError, IndexError, ValueError, TypeError, AttributeError) as e:     # never lets the invariant phase break a run
            self.errors["type-invariants"] = repr(e)

    # ---- type invariants (A11): `int field <= len(slice field)` of a workspace struct whose fields cannot be written from
    # outside the crate.  A candidate is kept when every construction of the struct in the workspace establishes it and every
    # function that holds `&mut` to the struct re-establishes it at each return when it is assumed at entry (induction over the
    # calls made on a value of the type).  Surviving invariants are assumed at the entry of the functions whose obligations
    # failed; an obligation discharged that way is marked, nothing else of the first analysis is replaced.
    def _reanalyse(self, b, invs):
        an = zone.Analyzer(b, self.summaries, self.cat, self.depth)
        disp = {}
        for (y, bi, why) in self.cg.edges.get(b.id, []):
            if why.startswith("instantiated") or why in ("cha", "default-method"):
                disp.setdefault(bi, []).append(y)
        an.dispatch = disp
        an.type_invs = invs
        an.run()
        return an

    def _type_invariants(self):
        prog = self.prog
        ws = ("simple_dns", "simple_mdns")
        self.type_invariants = {}

        def struct_params(b, mut_only=False):
            out = []
            for i in range(1, b.argc + 1):
                t0 = b.local_ty(i)
                if t0["k"] != "ref" or (mut_only and not t0.get("mut")):
                    continue
                inner = b.ty(t0["t"])
                if inner["k"] == "adt":
                    out.append((i, inner.get("name")))
            return out
        targets = {}
        for bid, an in self.results.items():
            b = prog.bodies[bid]
            if b.crate not in ws or not any((not o.ok) for o in an.obligations):
                continue
            for i, sname in struct_params(b):
                adt = prog.adts.get(sname)
                if adt is None or adt.get("kind") != "struct" or adt.get("crate") not in ws or len(adt["variants"]) != 1:
                    continue
                if any(f.get("pub") for f in adt["variants"][0]["fields"]):
                    continue            # a public field can be written by anybody
                targets.setdefault(sname, set()).add(bid)
        for sname, bids in sorted(targets.items()):
            adt = prog.adts[sname]
            tt = prog.types[adt["crate"]]
            fields = adt["variants"][0]["fields"]
            ints = [f["name"] for f in fields if tt[f["t"]]["k"] == "int"]
            sls = [f["name"] for f in fields if tt[f["t"]]["k"] == "ref" and tt[tt[f["t"]]["t"]]["k"] in ("slice", "str")]
            cands = [(a, g) for a in ints for g in sls]
            if not cands:
                continue
            # constructions
            n_builds = 0
            for an in self.results.values():
                for (aname, fnames, vals, st, tys) in an.struct_builds:
                    if aname != sname:
                        continue
                    n_builds += 1
                    for (a, g) in list(cands):
                        fv, gv = vals[fnames.index(a)], vals[fnames.index(g)]
                        la = an.as_lin(fv)
                        ln = an.slice_len_of_val(st, gv, tys[fnames.index(g)])
                        if la is None or ln is None or not entails(st.facts, an.iv, la - ln, an.depth):
                            cands.remove((a, g))
            if not n_builds:
                continue
            # a field written on a local value of the type (not through `&mut self`) is not followed: give up on the struct
            for b in prog.bodies.values():
                if b.crate not in ws:
                    continue
                for bl in b.blocks:
                    for s in bl["stmts"]:
                        if s["s"] == "assign" and s["pl"]["p"] and isinstance(s["pl"]["p"][0], dict) and s["pl"]["p"][0].get("adt") == sname \
                                and s["pl"]["p"][0].get("n") in ints + sls:
                            cands = []
            # preservation
            muts = [b for b in prog.bodies.values() if b.crate in ws and b.kind != "Promoted" and any(n == sname for _i, n in struct_params(b, True))]
            changed = True
            rounds = 0
            while cands and changed and rounds < 4:
                changed = False
                rounds += 1
                for b in muts:
                    if b.id not in self.results:
                        cands = []
                        break
                    an2 = self._reanalyse(b, {sname: list(cands)})
                    for (bi, st) in an2.ret_states:
                        for i, n in struct_params(b, True):
                            if n != sname:
                                continue
                            for (a, g) in list(cands):
                                fv = st.store.get("(*_%d).%s" % (i, a))
                                ln = st.store.get("len:(*_%d).%s" % (i, g))
                                if fv is None or ln is None or fv[0] != "lin" or not entails(st.facts, an2.iv, fv[1] - ln[1], an2.depth):
                                    cands.remove((a, g))
                                    changed = True
            if not cands:
                continue
            self.type_invariants[sname] = list(cands)
            # use: obligations of the functions that failed, re-examined under the invariant
            for bid in sorted(bids):
                b = prog.bodies[bid]
                an2 = self._reanalyse(b, {sname: list(cands)})
                good = set((o.bi, o.kind, o.snippet) for o in an2.obligations if o.ok)
                for o in self.results[bid].obligations:
                    if not o.ok and (o.bi, o.kind, o.snippet) in good:
                        o.ok = True
                        o.why = "type invariant of %s (%s), established by every construction and kept by every `&mut` method" % (
                            sname.split("::")[-1], ", ".join("%s <= len(%s)" % c for c in cands))

    # ---- preconditions (A4): an obligation over a function's entry cursor / data length may be
    # discharged by its callers, when every caller establishes it and the function cannot be called
    # from outside the crate
    def _entry_syms(self, b):
        out = set()
        for i in range(1, b.argc + 1):
            t = b.local_ty(i)
            if t["k"] == "ref":
                inner = b.ty(t["t"])
                if inner["k"] == "int":
                    out.add("(*_%d)@entry" % i)
                elif inner["k"] in ("slice", "str"):
                    out.add("len(_%d)" % i)
            elif t["k"] == "int":
                out.add("_%d" % i)
        return out

    def _can_assume(self, b):
        return b.vis != "pub" and b.kind != "Closure"

    def _preconditions(self, b, an):
        if b.id in getattr(self.prog, "inlined_helper_ids", ()) or (b.kind == "Closure" and b.root in getattr(self.prog, "inlined_helper_ids", ())):
            return          # the standalone copy of a helper that was inlined into its callers: nothing calls it
        entry = self._entry_syms(b)
        allowed = self._can_assume(b)
        pre = []
        if allowed:
            for oi, o in enumerate(an.obligations):
                if o.ok or not o.failed:
                    continue
                if all(e is not None and set(e.syms()) <= entry for e, _ in o.failed):
                    o.lifted = True
                    for e, txt in o.failed:
                        pre.append({"goal": e, "text": txt, "origin": (b.id, oi)})
        # callee preconditions at this body's call sites
        edges_by_block = {}
        for (y, bi, why) in self.cg.edges.get(b.id, []):
            edges_by_block.setdefault(bi, []).append((y, why))
        checked = set()
        for ev in an.events:
            c = ev.get("callee")
            if c is None:
                continue
            targets = []
            if c["resolved"] and c["id"] in self.preconds:
                targets = [c["id"]]
            elif not c["resolved"]:
                targets = [y for (y, why) in edges_by_block.get(ev["bi"], [])
                           if y in self.preconds and (why.startswith("instantiated") or why in ("cha", "default-method"))]
            for tid in targets:
                checked.add((ev["bi"], tid))
                for p in self.preconds[tid]:
                    g = p["goal"]
                    amap = ev.get("argmap") or {}
                    okmap = True
                    for s0 in list(g.syms()):
                        r = amap.get(s0)
                        if r is None:
                            okmap = False
                            break
                        g = zone.subst(g, s0 + "", zone.Lin.sym("\0tmp"))
                        g = zone.subst(g, "\0tmp", r)
                    st = ev.get("st")
                    if okmap and st is not None and entails(st.facts, an.iv, g, an.depth):
                        self.pre_proved.setdefault(p["origin"], []).append((b.id, ev["bi"]))
                        continue
                    if okmap and allowed and set(g.syms()) <= entry:
                        pre.append({"goal": g, "text": p["text"], "origin": p["origin"]})
                        continue
                    self.pre_failed.setdefault(p["origin"], []).append((b.id, ev["bi"]))
        # a function with preconditions that is referenced other than by a direct call cannot be checked
        for (y, bi, why) in self.cg.edges.get(b.id, []):
            if y in self.preconds and (bi, y) not in checked:
                for p in self.preconds[y]:
                    self.pre_failed.setdefault(p["origin"], []).append((b.id, bi))
        if pre:
            self.preconds[b.id] = pre

    def _finish_preconditions(self):
        for bid, an in self.results.items():
            for oi, o in enumerate(an.obligations):
                if o.lifted:
                    fails = self.pre_failed.get((bid, oi))
                    if fails:
                        f0 = fails[0]
                        o.detail += "  (not established by caller %s)" % self.prog.bodies[f0[0]].qname
                    else:
                        o.ok = True
                        n = len(self.pre_proved.get((bid, oi), []))
                        o.why = "precondition established by every caller (%d call sites)" % n

    def _order(self):
        comps = self.cg.sccs(self.prog.bodies.keys())
        # Tarjan emits components in reverse topological order (callees first)
        order = []
        self.recursive = set()
        for comp in comps:
            if len(comp) > 1:
                self.recursive |= set(comp)
            else:
                v = comp[0]
                if any(e[0] == v for e in self.cg.edges.get(v, [])):
                    self.recursive.add(v)
            order.extend(sorted(comp))
        return order
