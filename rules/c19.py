"""C19 TXT text and attribute conversions are lossless (partial: separators, 255 limit, chunking, join)."""
import re
from common import Report, Violation, where_of
from lin import Lin, entails
import mirutil as mu


def viol(report, rule, b, kind, msg, sn=""):
    report.violate(Violation(report.key(b.qname, rule, kind, sn), "%s:%d" % (b.file, b.line), rule, "%s: %s" % (rule, msg)))


def run(ctx):
    prog, W = ctx.prog, ctx.whole
    report = Report("C19", ctx, "R1 no char is narrowed to u8/u16 in the functions reachable from the TXT conversions (a narrowed code point "
                    "compared with ';' or '=' conflates characters congruent mod 256); R2 every CharacterString construction outside "
                    "into_owned / parse is dominated by len <= 255 (internal_new) - parse takes the length from a wire byte; R3 the "
                    "chunk size used to split text is a constant in 1..=254; R4 String::try_from(TXT) appends every string's bytes once, "
                    "in order, and decodes the concatenation once; R5 in TXT::attributes and TXT::long_attributes every split at '=' is bounded to two pieces "
                    "(splitn(2, ..) / split_once), every split at ';' is unbounded, and no other separator is used; R6 TXT::try_from(attribute map) decides "
                    "between `key` and `key=value` by matching on the Option itself - it never collapses None into a String first.")
    roots = []
    for q in ["simple_dns::TXT::attributes", "simple_dns::TXT::long_attributes", "simple_dns::<TXT as TryFrom<&str>>::try_from",
              "simple_dns::<TXT as TryFrom<HashMap<String, Option<String>>>>::try_from", "simple_dns::<String as TryFrom<TXT>>::try_from",
              "simple_dns::CharacterString::new", "simple_dns::<CharacterString as TryFrom<&str>>::try_from",
              "simple_dns::<CharacterString as TryFrom<String>>::try_from"]:
        b = ctx.must_find(report, q)
        if b is not None:
            roots.append(b)
    reach = ctx.cg.reachable([r.id for r in roots])
    # ---- R1
    n_casts = 0
    for bid in sorted(reach):
        b = prog.bodies[bid]
        if b.crate != "simple_dns":
            continue
        for bi, bl in enumerate(b.blocks):
            if bl["cleanup"]:
                continue
            for s in bl["stmts"]:
                if s["s"] == "assign" and s["rv"]["k"] == "cast" and s["rv"]["ck"] == "IntToInt" and s["rv"]["op"]["o"] in ("copy", "move"):
                    src_t = b.ty(s["rv"]["op"]["pl"]["t"])
                    dst_t = b.ty(s["rv"]["t"])
                    n_casts += 1
                    if src_t["k"] == "char" and dst_t["k"] == "int" and dst_t["w"] < 32:
                        viol(report, "C19-R1", b, "char-narrowing", "`%s` narrows a char to %s: code points that differ by a multiple of %d "
                             "are conflated (U+013B is treated as ';', U+013D as '=')" % (s["sp"].get("sn") or "cast", dst_t["s"], 1 << dst_t["w"]),
                             s["sp"].get("sn") or "")
    report.count(len(reach))
    report.extra["integer_casts_scanned"] = n_casts
    report.nontriv("char casts")
    # ---- R7 nothing folds case or trims on the way: keys and values are read back exactly as written
    import c16 as _c16
    n_norm = 0
    for bid in sorted(reach):
        b0 = prog.bodies[bid]
        if b0.crate != "simple_dns":
            continue
        for bi, t in mu.calls(b0, r"."):
            m0 = _c16.NORMALISER.search(t["callee"]["def"]) if t["callee"] else None
            if m0:
                n_norm += 1
                viol(report, "C19-R7", b0, "normalising", "`%s` in %s alters the text (%s): keys / values no longer read back as they were written" % (
                    t["sp"].get("sn") or m0.group(1), b0.qname, m0.group(1)), t["sp"].get("sn") or m0.group(1))
    report.count()
    if not n_norm:
        report.nontriv("no case folding / trimming")
    # ---- R2 who may construct a CharacterString
    cs_adt = "simple_dns::dns::character_string::CharacterString"
    n_c = 0
    for b in sorted(prog.bodies.values(), key=lambda x: x.qname):
        if b.kind == "Promoted":
            continue
        for bi, si, s in mu.aggregates(b, "character_string::CharacterString"):
            n_c += 1
            report.count()
            if b.name in ("into_owned",) or (b.impl and b.impl["derived"]):
                report.nontriv("cs:" + b.qname)
                continue
            an = W.results.get(b.id)
            ok = False
            why = ""
            if an is not None:
                for bi2, st, v in an.ok_points:
                    if not (v and v[0] == "adt"):
                        continue
                    stack = [v]
                    while stack:
                        x = stack.pop()
                        if x is None or x[0] != "adt":
                            continue
                        if x[1] == "CharacterString":
                            # data length bounded by 255 at the construction
                            dl = None
                            stack2 = list(x[3])
                            while stack2:
                                y = stack2.pop()
                                if y is None:
                                    continue
                                if y[0] == "slice":
                                    dl = st.store.get("len:" + y[1])
                                elif y[0] == "ref":
                                    dl = st.store.get("len:" + y[1])
                                elif y[0] == "adt":
                                    stack2.extend(y[3])
                            if dl is None:
                                # the field is a by-value local (e.g. a Cow parameter): its length symbol is keyed by the local
                                op = s["rv"]["ops"][0] if s["rv"]["ops"] else None
                                if op is not None and op["o"] in ("copy", "move") and not op["pl"]["p"]:
                                    dl = st.store.get("len:_%d" % op["pl"]["l"])
                            if dl is not None and entails(st.facts, an.iv, dl[1] - 255, an.depth):
                                ok = True
                            else:
                                why = "length %s not bounded by 255" % (dl[1] if dl else "untracked")
                        stack.extend(x[3])
            if ok:
                report.nontriv("cs:" + b.qname)
                report.sample({"constructor": b.qname, "entailed": "data.len() <= 255 at the construction"})
            else:
                viol(report, "C19-R2", b, "unbounded-construction", "%s builds a CharacterString whose length is not shown to be <= 255 (%s): it "
                     "would be truncated on the wire (length byte = len as u8)" % (b.qname, why), s["sp"].get("sn") or "")
    report.floor("CharacterString constructions", n_c, 3)
    # ---- R3 chunk size
    tf = prog.find("simple_dns::<TXT as TryFrom<&str>>::try_from")
    if tf is not None:
        an = W.results[tf.id]
        ch = [e for e in an.events if e.get("callee") and e["callee"]["def"].endswith("<impl [T]>::chunks")]
        report.count()
        okc = False
        if len(ch) == 1:
            v = ch[0]["vals"][1]
            if v is not None and v[0] == "lin" and v[1].is_const() and 1 <= v[1].c <= 254:
                okc = True
        if okc:
            report.nontriv("chunk size")
            report.sample({"fn": tf.qname, "chunk_size": ch[0]["vals"][1][1].c})
        else:
            viol(report, "C19-R3", tf, "chunk-size", "text is not split into chunks of a constant size within 1..=254 bytes")
    # ---- R4 join
    sf = prog.find("simple_dns::<String as TryFrom<TXT>>::try_from")
    if sf is not None:
        report.count()
        fam = [sf] + mu.closures_of(prog, sf)
        ext = []
        rev = []
        for x in fam:
            ext += mu.calls(x, r"Vec<T, A> as std::iter::Extend<.*>>::extend$|Vec::<T, A>::(extend_from_slice|append|push)$|String::push_str$")
            rev += mu.calls(x, r"Iterator::(rev|skip|take|step_by|filter|skip_while|take_while)$|<impl \[T\]>::(reverse|sort.*)$")
        # one pass over the strings in their stored order: a fold, or one loop driven by next() of the vector's iterator
        folds = mu.calls(sf, r"Iterator>::fold$|Iterator::fold$|Iterator::for_each$")
        import loops as _loops
        lps, _irr, _dom = _loops.natural_loops(sf)
        nexts = [t for _, t in mu.calls(sf, r"as std::iter::Iterator>::next$")]
        ordered_src = lambda tys: any(("vec::IntoIter<" in y or "slice::Iter<" in y) and "CharacterString" in y for y in tys)
        okj = False
        # ... and decoded as UTF-8 once, as a whole (a character may straddle two strings)
        dec_in = [(x, bi) for x in fam for bi, t in mu.calls(x, r"String::from_utf8(_lossy|_unchecked)?$|str::converts::from_utf8$|from_utf8$")]
        loop_blocks = set()
        for h0, info0 in lps.items():
            loop_blocks |= set(info0["body"])
        whole = len(dec_in) == 1 and dec_in[0][0] is sf and dec_in[0][1] not in loop_blocks
        if len(ext) == 1 and not rev and whole:
            if len(folds) == 1 and not lps:
                recv = [sf.ty(i)["s"] for i in folds[0][1]["callee"]["targs"]]
                okj = ordered_src(recv)
            elif not folds and len(lps) == 1 and len(nexts) == 1:
                recv = [sf.ty(i)["s"] for i in nexts[0]["callee"]["targs"]] + [sf.ty(nexts[0]["args"][0]["pl"]["t"])["s"]]
                h, info = list(lps.items())[0]
                okj = ordered_src(recv) and ext[0][0] in info["body"]
        if okj:
            report.nontriv("join")
        else:
            viol(report, "C19-R4", sf, "join", "String::try_from(TXT) is not one in-order pass over the strings that appends each string's bytes once and decodes the "
                 "concatenation as a whole")
    # ---- R5 separators
    for q, want_semi in (("simple_dns::TXT::attributes", 0), ("simple_dns::TXT::long_attributes", 1)):
        fb = prog.find(q)
        if fb is None:
            continue
        fam = [fb] + mu.closures_of(prog, fb)
        n_eq = n_semi = 0
        for x in fam:
            xdefs = mu.defs_of(x)
            for bi, t in mu.calls(x, r"(<impl str>|<impl \[T\]>)::(r?splitn?|split_once|rsplit_once|split_terminator|split_inclusive|split_at)$"):
                name = t["callee"]["name"]
                report.count()
                seps = set()
                bound = None
                for a in t["args"][1:]:
                    if a["o"] == "const" and a["k"].get("c") == "int":
                        ty = x.ty(a["k"]["t"])
                        if ty["k"] == "char" or (ty["k"] == "int" and ty.get("w") == 8 and name in ("split_once",)):
                            seps.add(int(a["k"]["v"]))
                        else:
                            bound = int(a["k"]["v"])
                        continue
                    l = mu.op_local(a)
                    d = mu.single_def(xdefs, l) if l is not None else None
                    if d is not None and d[1] != "term" and d[2].get("k") == "agg" and d[2].get("ak") == "closure":
                        cb = prog.bodies.get(d[2]["def"])
                        for bl in cb.blocks if cb is not None else []:
                            for s2 in bl["stmts"]:
                                if s2["s"] == "assign" and s2["rv"]["k"] == "bin" and s2["rv"]["op"] in ("Eq", "Ne"):
                                    for side in ("a", "b"):
                                        o = s2["rv"][side]
                                        if o["o"] == "const" and o["k"].get("c") == "int":
                                            seps.add(int(o["k"]["v"]))
                sn = t["sp"].get("sn") or name
                if not seps or name == "split_at":
                    viol(report, "C19-R5", x, "separator", "cannot tell which separator `%s` splits at" % sn, sn)
                    continue
                for sep in sorted(seps):
                    if sep == 61:
                        n_eq += 1
                        if (name == "splitn" and bound == 2) or name == "split_once":
                            report.nontriv("eq-split:" + x.qname)
                        else:
                            viol(report, "C19-R5", x, "eq-split", "`%s` splits an entry at every '=' (or from the wrong end): a value that itself "
                                 "contains '=' is cut short; only the first '=' separates key and value" % sn, sn)
                    elif sep == 59 and want_semi:
                        n_semi += 1
                        if name in ("split", "split_terminator"):
                            report.nontriv("semi-split:" + x.qname)
                        else:
                            viol(report, "C19-R5", x, "semi-split", "`%s` does not split at every ';': later entries are merged or dropped" % sn, sn)
                    else:
                        viol(report, "C19-R5", x, "separator", "`%s` splits at %r; attributes are separated only at ';' (long form) and the "
                             "first '='" % (sn, chr(sep)), sn)
        report.floor("'=' splits in %s" % q.split("::")[-1], n_eq, 1)
        if want_semi:
            report.floor("';' splits in %s" % q.split("::")[-1], n_semi, 1)
    # ---- R6 absent vs empty on the writing side
    hm = prog.find("simple_dns::<TXT as TryFrom<HashMap<String, Option<String>>>>::try_from")
    if hm is not None:
        fam = [hm] + mu.closures_of(prog, hm)
        collapses = []
        matches = 0
        for x in fam:
            for bi, t in mu.calls(x, r"^std::option::Option::<T>::(unwrap_or_default|unwrap_or|unwrap_or_else|map_or|map_or_else|unwrap|expect|"
                                     r"is_some_and|is_none_or|filter|and_then|or|or_else|xor)$"):
                targs = [x.ty(i)["s"] for i in t["callee"]["targs"]]
                if targs and targs[0] in ("std::string::String", "&std::string::String", "&str"):
                    collapses.append(t["sp"].get("sn") or t["callee"]["name"])
            xdefs = mu.defs_of(x)
            for bi, bl in enumerate(x.blocks):
                t = bl["term"]
                if bl["cleanup"] or t["t"] != "switch":
                    continue
                l = mu.op_local(t["discr"])
                d = mu.single_def(xdefs, l) if l is not None else None
                if d is not None and d[1] != "term" and d[2].get("k") == "discr" and \
                        x.ty(d[2]["pl"]["t"])["s"] == "std::option::Option<std::string::String>":
                    matches += 1
        report.count()
        if collapses or not matches:
            viol(report, "C19-R6", hm, "absent-vs-empty", "TXT::try_from(attribute map) %s: an entry with an empty value (`key=`) and an entry "
                 "without a value (`key`) are written alike, so reading the attributes back cannot tell them apart" % (
                     ("passes the Option<String> value through `%s`, which turns None into a String" % collapses[0]) if collapses else
                     "does not match on the Option<String> value"), collapses[0] if collapses else "no-match")
        else:
            report.nontriv("absent vs empty (writer)")
    report.assumptions += ["the attribute-map round trip (absent vs empty, first-wins) is value-level and not decided",
                           "the out-of-crate half of R2 is the privacy of CharacterString's field (pub(crate)), checked by the compiler"]
    return report.finish()
