"""C16 Owned copies equal originals; equality and hashing agree."""
import re
from common import Report, Violation, where_of
import tables
from tables import Extractor, NotATable
import mirutil as mu


def viol(report, rule, b, kind, msg, snippet=""):
    report.violate(Violation(report.key(b.qname, rule, kind, snippet), "%s:%d" % (b.file, b.line), rule, "%s: %s" % (rule, msg)))


def origins(t, acc, param=1):
    """where a result term takes its data from: fields / payloads of parameter `param`, constants, or opaque values"""
    k = t[0]
    if k == "field":
        base = t[1]
        if base == ("arg", param) or base == ("ref", ("arg", param)):
            acc.add(("field", t[2]))
            return
        origins(base, acc, param)
        return
    if k == "payload":
        base = t[1]
        if base == ("arg", param) or base == ("ref", ("arg", param)):
            acc.add(("payload", t[2], t[3]))
            return
        origins(base, acc, param)
        return
    if k == "arg":
        acc.add(("arg", t[1]))
        return
    if k == "const":
        acc.add(("const", t[1]))
        return
    if k == "opaque":
        acc.add(("opaque", t[1]))
        return
    if k in ("variant",):
        if not t[3]:
            acc.add(("const", t[2]))
        for x in t[3]:
            origins(x, acc, param)
        return
    if k in ("tuple",):
        for x in t[1]:
            origins(x, acc, param)
        return
    if k in ("call",):
        if not t[2]:
            acc.add(("fresh", t[3]))
        for x in t[2]:
            origins(x, acc, param)
        return
    if k in ("ref", "okpayload", "branch", "ovf", "downcast", "discr", "into"):
        origins(t[1], acc, param)
        return
    if k == "cast":
        origins(t[1], acc, param)
        return
    if k == "bin":
        origins(t[2], acc, param)
        origins(t[3], acc, param)
        return
    if k == "un":
        origins(t[2], acc, param)
        return
    if k in ("closure", "fn"):
        return
    acc.add(("opaque", k))


def check_copy_aggregate(report, rule, b, res, conds, param, adt_fields_of):
    """res: ('variant', adt, vname, [terms], fieldnames).  Every field must come from the same field of `param`."""
    adt, vname, terms, fnames = res[1], res[2], res[3], res[4]
    is_enum = any(c[0] == "eq" and c[1] == ("discr", ("arg", param)) for c in conds)
    for i, (fn, t) in enumerate(zip(fnames, terms)):
        acc = set()
        origins(t, acc, param)
        report.count()
        ident = "%s.%s.%s" % (b.qname, vname, fn)
        if is_enum:
            want = {("payload", vname, i)}
        else:
            want = {("field", fn)}
            alt = {("field", i)}
            if acc == alt:
                acc = want
        src = set(o for o in acc if o[0] in ("field", "payload", "arg"))
        other = acc - src
        if src == want and not [o for o in other if o[0] in ("const", "fresh")]:
            report.nontriv(ident)
            continue
        viol(report, rule, b, "field-origin",
             "%s builds %s::%s.%s from %s; an owned copy must take it from the same field of the original" % (
                 b.qname, adt.split("::")[-1], vname, fn, sorted(map(str, acc)) or "nothing"), "%s.%s" % (vname, fn))


REORDER = re.compile(r"(?:<impl \[T\]>|Vec::<T, A>|VecDeque::<T, A>)::(sort\w*|reverse|rotate_\w+|swap|dedup\w*|retain\w*|truncate|"
                     r"swap_remove|remove|pop|clear|drain|split_off)$")


def run(ctx):
    prog = ctx.prog
    report = Report("C16", ctx, "R1 every into_owned (and the record-building closures inside) builds each field / variant payload of "
                    "its result from the same field / payload of self (origins computed on the extracted result terms); R2 for types "
                    "with a hand-written Hash or PartialEq, the fields hashed are a subset of the fields compared; R3 no Hash impl "
                    "feeds the hasher in the iteration order of a HashSet/HashMap; R4 Clone impls are derived.")
    owned = [b for b in prog.bodies.values() if b.name == "into_owned" and b.kind in ("AssocFn", "Fn")]
    report.floor("into_owned functions", len(owned), 45)
    n_arms = 0
    for b in sorted(owned, key=lambda x: x.qname):
        try:
            leaves = Extractor(prog, b, stop_at_loops=False).run()
        except NotATable as e:
            # `for x in self.f { v.push(x.into_owned()) }` is `self.f.into_iter().map(..).collect()` written as a loop: collapse
            # such loops to `v = self.f` (element-wise copies keep the origin) and linearise what is left
            b2 = collapse_collect_loops(prog, b)
            leaves = None
            if b2 is not None:
                try:
                    leaves = Extractor(prog, b2, stop_at_loops=False).run()
                    report.nontriv(b.qname + "#collect-loop")
                except NotATable as e2:
                    e = e2
            if leaves is None:
                viol(report, "C16-R1", b, "not-extractable", "%s cannot be linearised (%s): field coverage cannot be shown" % (b.qname, e))
                continue
        ok_any = False
        leaves = [(conds, expand_ctor_call(prog, res)) for conds, res in leaves]
        for conds, res in leaves:
            if res[0] == "variant" and res[1].split("::")[-1] not in ("Result", "Option"):
                ok_any = True
                n_arms += 1
                # enum arm: the result variant must be the matched variant
                for c in conds:
                    if c[0] == "eq" and c[1] == ("discr", ("arg", 1)):
                        adt = prog.adts.get(res[1]) or ctx.cg._lookup_adt(res[1])
                        if adt is not None:
                            byd = {int(v["discr"]) if v["discr"] is not None else i: v["name"] for i, v in enumerate(adt["variants"])}
                            if byd.get(c[2]) != res[2]:
                                viol(report, "C16-R1", b, "variant-swap", "%s maps variant %s to variant %s" % (b.qname, byd.get(c[2]), res[2]),
                                     str(byd.get(c[2])))
                check_copy_aggregate(report, "C16-R1", b, res, conds, 1, None)
            elif res[0] == "call" or res[0] == "arg":
                # wrapper forwarding to an inner into_owned / returning self
                acc = set()
                origins(res, acc, 1)
                ok_any = True
                report.count()
                if not any(o[0] in ("arg", "field", "payload") for o in acc):
                    viol(report, "C16-R1", b, "field-origin", "%s does not build its result from self (%s)" % (b.qname, sorted(map(str, acc))))
                else:
                    report.nontriv(b.qname + "#forward")
        if not ok_any:
            viol(report, "C16-R1", b, "no-result", "%s: no result aggregate found on any path" % b.qname)
        # aggregates built inside closures of into_owned (e.g. the per-item maps)
        for cb in mu.closures_of(prog, b):
            try:
                cl = Extractor(prog, cb).run()
            except NotATable:
                continue
            for conds, res in cl:
                if res[0] == "variant" and res[4] and res[1].startswith(("simple_dns", "simple_mdns")):
                    pt = cb.local_ty(2)["s"] if cb.argc >= 2 else ""
                    if res[1].split("::")[-1] in pt:
                        check_copy_aggregate(report, "C16-R1", cb, res, conds, 2, None)
        # an owned copy keeps the order and the number of the elements it copies: nothing in into_owned (or its closures) may
        # sort, reverse, de-duplicate, truncate or remove from a collection
        for x in [b] + mu.closures_of(prog, b):
            for bi, t in mu.calls(x, r"."):
                m = REORDER.search(t["callee"]["def"]) if t.get("callee") else None
                if m and not x.blocks[bi]["cleanup"]:
                    viol(report, "C16-R1", b, "reordered", "%s calls `%s` on a collection it copies: the owned value no longer has the elements of "
                         "the original in the original order, so it does not compare equal to it" % (b.qname, m.group(1)), m.group(1))
    report.extra["into_owned_result_aggregates"] = n_arms
    report.sample({"fn": "simple_dns::ResourceRecord::into_owned", "rule": "each of name/class/ttl/rdata/cache_flush originates in self.<same field>"})
    # ---- R2 / R3 / R4
    by_type = {}
    for b in prog.bodies.values():
        if b.kind in ("Closure", "Promoted") or not b.impl or not b.impl["trait"]:
            continue
        tr = b.impl["trait"]
        if tr in ("std::hash::Hash", "std::cmp::PartialEq", "std::clone::Clone") and b.name in ("hash", "eq", "clone"):
            by_type.setdefault((b.crate, b.impl["self_s"]), {})[b.name] = b
    n_pairs = 0
    for (crate, ty), d in sorted(by_type.items()):
        h, e, c = d.get("hash"), d.get("eq"), d.get("clone")
        if c is not None:
            report.count()
            if not c.impl["derived"]:
                viol(report, "C16-R4", c, "manual-clone", "%s has a hand-written Clone impl: clone() == original is no longer structural" % ty)
        if h is None or e is None:
            continue
        n_pairs += 1
        report.count()
        if h.impl["derived"] and e.impl["derived"]:
            continue        # both derive: same field list by construction
        hf = fields_used(prog, h)
        ef = fields_used(prog, e)
        report.nontriv("eqhash:" + ty)
        report.sample({"type": ty, "hashed": sorted(hf), "compared": sorted(ef)})
        # equality that normalises (case folding, trimming) needs a hash that normalises the same way
        ne, nh = normalisers(prog, ctx.cg, e), normalisers(prog, ctx.cg, h)
        if ne - nh:
            viol(report, "C16-R2", e, "eq-normalises", "%s: equality compares through %s but the Hash impl hashes the raw bytes (normalisers "
                 "in hash: %s): values that compare equal (differing only in what equality folds away) hash differently" % (
                     ty, sorted(ne - nh), sorted(nh) or "none"), ",".join(sorted(ne - nh)))
        extra = hf - ef
        if extra:
            viol(report, "C16-R2", h, "hash-eq", "%s hashes %s, which equality ignores (compared: %s): equal values can hash differently" % (
                ty, sorted(extra), sorted(ef)), ",".join(sorted(extra)))
    report.floor("types with both Hash and PartialEq", n_pairs, 40)
    for (crate, ty), d in sorted(by_type.items()):
        h = d.get("hash")
        if h is None or h.impl["derived"]:
            continue
        report.count()
        report.nontriv("order:" + ty)
        for msg, sn in unordered_feeds(prog, h):
            viol(report, "C16-R3", h, "unordered-hash", "%s: %s" % (ty, msg), sn)
    report.assumptions += ["std collection Clone/Eq/Hash impls are lawful", "derive(PartialEq, Hash) use the same field list"]
    return report.finish()


NORMALISER = re.compile(r"::(eq_ignore_ascii_case|to_ascii_lowercase|to_ascii_uppercase|make_ascii_lowercase|make_ascii_uppercase|"
                        r"to_lowercase|to_uppercase|trim|trim_start|trim_end|trim_matches|eq_ignore_case)$")


def normalisers(prog, cg, b):
    """normalising std calls made by an eq()/hash() body, its closures and the crate functions it reaches"""
    out = set()
    for bid in cg.reachable([b.id]):
        bb = prog.bodies[bid]
        if bb.crate != b.crate:
            continue
        for bi, t in mu.calls(bb, r"."):
            m = NORMALISER.search(t["callee"]["def"]) if t["callee"] else None
            if m:
                n = m.group(1)
                out.add("ascii case folding" if "ascii" in n else ("case folding" if "case" in n else "trimming"))
    return out


def _subst_args(t, actual):
    if isinstance(t, tuple):
        if len(t) == 2 and t[0] == "arg" and isinstance(t[1], int) and 1 <= t[1] <= len(actual):
            return actual[t[1] - 1]
        return tuple(_subst_args(x, actual) for x in t)
    if isinstance(t, list):
        return [_subst_args(x, actual) for x in t]
    return t


def expand_ctor_call(prog, res, depth=0):
    """an owned copy built through a constructor of the crate (`Self::new(a, b, c)`): replace the call by what the constructor
    builds, so that fields the constructor fills with constants (e.g. `cache_flush: false`) are seen as such"""
    if depth > 2 or not (isinstance(res, tuple) and res and res[0] == "call"):
        return res
    cid, cargs, name = res[1], res[2], res[3]
    if re.search(r"::(into_owned|clone|to_owned|into|from)$", name):
        return res
    cb = prog.bodies.get(cid)
    if cb is None or cb.crate not in ("simple_dns", "simple_mdns"):
        return res
    try:
        cl = Extractor(prog, cb, stop_at_loops=False).run()
    except NotATable:
        return res
    outs = [r for c, r in cl]
    if len(outs) != 1 or outs[0][0] != "variant":
        return res
    return expand_ctor_call(prog, _subst_args(outs[0], list(cargs)), depth + 1)


ELEMENT_COPY = re.compile(r"::(into_owned|clone|to_owned|into|from|to_vec|to_string)$")


def _elem_field(b, defs, op, next_dest, depth=0):
    """name of the field of the loop element (the `Some` payload of the value `next()` returned into local next_dest) an operand is
    taken from, through element-wise copies (into_owned / clone / into ..) and single-variant constructors (`Cow::Owned(..)`);
    "" for the whole element, None when it is something else"""
    cur = mu.op_local(op)
    for _ in range(12):
        d = mu.single_def(defs, cur) if cur is not None else None
        if d is None:
            return None
        if d[1] == "term":
            t = d[2]
            if not (t["callee"] and ELEMENT_COPY.search(t["callee"]["def"])) or not t["args"]:
                return None
            cur = mu.op_local(t["args"][0])
            continue
        rv = d[2]
        if rv.get("k") == "agg" and rv.get("ak") == "adt" and len(rv.get("ops") or []) == 1 and depth < 4:
            # a wrapper around one value (`Cow::Owned(x)`, `Some(x)`)
            return _elem_field(b, defs, rv["ops"][0], next_dest, depth + 1)
        if rv.get("k") in ("use", "cast", "ref"):
            pl = rv["op"]["pl"] if rv.get("k") != "ref" else rv["pl"]
            if rv.get("k") != "ref" and rv["op"].get("o") not in ("copy", "move"):
                return None
            proj = [p for p in pl["p"] if isinstance(p, dict)]
            if any(p.get("n") == "Some" for p in proj) and mu.origin_local(b, defs, pl["l"]) == next_dest:
                fs = [p["n"] if p.get("n") is not None else str(p["f"]) for p in proj if "f" in p and p.get("adt") != "std::option::Option"]
                return str(fs[0]) if fs else ""
            fs = [p["n"] if p.get("n") is not None else str(p["f"]) for p in proj if "f" in p]
            if not fs:
                cur = pl["l"]
                continue
            inner = _elem_field(b, defs, {"o": "copy", "pl": {"l": pl["l"], "p": []}}, next_dest, depth + 1) if depth < 4 else None
            return str(fs[0]) if inner == "" else None
        return None
    return None


def collapse_collect_loops(prog, b):
    """copy of body b in which every loop of the shape `for x in <self.field> { V.push(copy-of(x)) }` is replaced by
    `V = <self.field>`; None when some loop has another shape"""
    import copy
    import loops
    lps, irr, dom = loops.natural_loops(b)
    if not lps or irr:
        return None
    defs = mu.defs_of(b)
    blocks = copy.deepcopy(b.blocks)
    for h, info in lps.items():
        body = set(info["body"])
        nexts = [(bi, t) for bi, t in mu.calls(b, r"as std::iter::Iterator>::next$") if bi in body]
        pushes = [(bi, t) for bi, t in mu.calls(b, r"^std::vec::Vec::<T, A>::push$") if bi in body]
        inserts = [(bi, t) for bi, t in mu.calls(b, r"^std::collections::(BTreeMap::<K, V, A>|HashMap::<K, V, S>)::insert$") if bi in body]
        is_map = len(pushes) == 0 and len(inserts) == 1 and len(inserts[0][1]["args"]) == 3
        if is_map:
            pushes = inserts          # `for (k, v) in self.map { m.insert(k, copy-of(v)) }`
        if len(nexts) != 1 or len(pushes) != 1:
            return None
        # the iterated collection: a field of self, moved or borrowed into into_iter() / iter()
        src_place = None
        cur = mu.op_local(nexts[0][1]["args"][0])
        for _ in range(10):
            d = mu.single_def(defs, cur) if cur is not None else None
            if d is None:
                break
            if d[1] == "term":
                t = d[2]
                cal = t["callee"]["def"] if t["callee"] else ""
                if not (cal.endswith("IntoIterator>::into_iter") or cal.endswith("<impl [T]>::iter") or cal.endswith("as std::ops::Deref>::deref")):
                    break
                a0 = t["args"][0]
                if a0.get("o") in ("copy", "move") and a0["pl"]["l"] == 1 and any(isinstance(p, dict) and "f" in p for p in a0["pl"]["p"]):
                    src_place = a0["pl"]
                    break
                cur = mu.op_local(a0)
                continue
            rv = d[2]
            if rv.get("k") == "ref":
                if rv["pl"]["l"] == 1 and any(isinstance(p, dict) and "f" in p for p in rv["pl"]["p"]):
                    src_place = rv["pl"]
                    break
                cur = rv["pl"]["l"]
            elif rv.get("k") in ("use", "cast") and rv["op"].get("o") in ("copy", "move"):
                pl = rv["op"]["pl"]
                if pl["l"] == 1 and any(isinstance(p, dict) and "f" in p for p in pl["p"]):
                    src_place = pl
                    break
                cur = pl["l"]
            else:
                break
        if src_place is None:
            return None
        # the pushed value: the element, possibly through element-wise copies
        pbi, pt = pushes[0]
        cur = mu.op_local(pt["args"][1])
        ok_elem = False
        if is_map:
            cur = None
            ok_elem = _elem_field(b, defs, pt["args"][1], nexts[0][1]["dest"]["l"]) == "0" and \
                _elem_field(b, defs, pt["args"][2], nexts[0][1]["dest"]["l"]) == "1"
            if not ok_elem:
                return None
        for _ in range(8):
            d = mu.single_def(defs, cur) if cur is not None else None
            if d is None:
                break
            if d[1] == "term":
                t = d[2]
                if not (t["callee"] and ELEMENT_COPY.search(t["callee"]["def"])):
                    break
                cur = mu.op_local(t["args"][0])
                continue
            rv = d[2]
            if rv.get("k") in ("use", "cast", "ref") :
                pl = rv["op"]["pl"] if rv.get("k") != "ref" else rv["pl"]
                if any(isinstance(p, dict) and p.get("n") == "Some" for p in pl["p"]) and \
                        mu.origin_local(b, defs, pl["l"]) == nexts[0][1]["dest"]["l"]:
                    ok_elem = True
                    break
                cur = pl["l"]
            else:
                break
        if not ok_elem and not is_map:
            # the element rebuilt field by field: `v.push(T { a: x.a, b: copy-of(x.b) })` (what the mapping closure of the
            # iterator form does): every field of the aggregate pushed comes from the same field of the element
            d = mu.single_def(defs, mu.op_local(pt["args"][1])) if mu.op_local(pt["args"][1]) is not None else None
            if d is not None and d[1] != "term" and d[2].get("k") == "agg" and d[2].get("ak") == "adt" and d[2].get("fields") and \
                    len(d[2]["fields"]) == len(d[2]["ops"]):
                got = [_elem_field(b, defs, o, nexts[0][1]["dest"]["l"]) for o in d[2]["ops"]]
                ok_elem = all(g is not None and g == str(f) for g, f in zip(got, d[2]["fields"]))
        if not ok_elem:
            return None
        vl = None
        rl = mu.op_local(pt["args"][0])
        rd = mu.single_def(defs, rl) if rl is not None else None
        if rd is not None and rd[1] != "term" and rd[2].get("k") == "ref" and not rd[2]["pl"]["p"]:
            vl = rd[2]["pl"]["l"]
        exits = [s2 for x in body for s2 in b.successors(x) if s2 not in body and b.blocks[s2]["term"]["t"] != "unreachable"]
        if vl is None or len(set(exits)) != 1:
            return None
        sp = b.blocks[h]["stmts"][0]["sp"] if b.blocks[h]["stmts"] else nexts[0][1]["sp"]
        blocks[h] = {"stmts": [{"s": "assign", "pl": {"l": vl, "p": [], "t": b.locals[vl]["t"]},
                                "rv": {"k": "use", "op": {"o": "move", "pl": src_place}}, "sp": sp}],
                     "term": {"t": "goto", "target": exits[0]}, "cleanup": False}
    b2 = copy.copy(b)
    b2.blocks = blocks
    b2.preds = None
    return b2


def fields_used(prog, b):
    """names of the self fields a hash()/eq() body reads (including through its closures)"""
    out = set()
    bodies = [b] + mu.closures_of(prog, b)
    for bb in bodies:
        for bl in bb.blocks:
            if bl["cleanup"]:
                continue
            places = []
            for s in bl["stmts"]:
                if s["s"] == "assign":
                    rv = s["rv"]
                    if rv["k"] in ("ref", "discr", "rawptr"):
                        places.append(rv["pl"])
                    for op in mu_ops(rv):
                        if op["o"] in ("copy", "move"):
                            places.append(op["pl"])
            bdefs = mu.defs_of(bb) if bb is b else None
            for pl in places:
                base = pl["l"]
                if bb is b and base != 1 and pl["p"] and pl["p"][0] == "d":
                    # `self` seen through a copy of the reference (the parameter of a helper inlined back: `self.class_bits()`)
                    r0 = mu.ref_root(bb, bdefs, base)
                    if r0 == 1:
                        base = 1
                if base == 1 and bb is b:
                    fs = [p["n"] for p in pl["p"] if isinstance(p, dict) and "f" in p and p["n"] is not None]
                    if fs:
                        out.add(fs[0])
    return out


def mu_ops(rv):
    k = rv["k"]
    if k in ("use", "cast", "repeat"):
        return [rv["op"]]
    if k == "bin":
        return [rv["a"], rv["b"]]
    if k == "un":
        return [rv["a"]]
    if k == "agg":
        return rv["ops"]
    return []


UNORDERED = re.compile(r"std::collections::(hash_set|hash_map)::(Iter|IntoIter|Keys|Values|Drain)")


def unordered_feeds(prog, h):
    """(message, snippet) for every way the hasher is fed in HashSet/HashMap iteration order"""
    out = []
    closures = {x.id: x for x in mu.closures_of(prog, h)}
    tainted = {}
    order = sorted(mu.noncleanup_blocks(h))
    for bi in order:
        t = h.blocks[bi]["term"]
        if t["t"] != "call" or not t["callee"]:
            continue
        c = t["callee"]
        targ_s = " ".join(h.ty(i)["s"] for i in c["targs"])
        name = c["def"]
        if UNORDERED.search(targ_s) and re.search(r"Iterator::(for_each|fold|try_for_each|map|inspect)$|Iterator>::next$", name):
            # the closure (or loop body) run per element: does it hash?
            hashes = False
            for cid, cb in closures.items():
                if any(cid in (h.ty(i).get("def") or "") for i in c["targs"]) or True:
                    if mu.calls(cb, r"std::hash::Hash>::hash$|Hash::hash$|hash::impls::<impl std::hash::Hash"):
                        hashes = True
            if name.endswith("Iterator>::next"):
                hashes = bool(mu.calls(h, r"std::hash::Hash>::hash$|hash::impls::<impl std::hash::Hash"))
            if hashes:
                out.append(("feeds the hasher element by element in the iteration order of a hash collection (%s)" % (
                    t["sp"].get("sn") or name), t["sp"].get("sn") or name))
        if name.endswith("Iterator::collect") and UNORDERED.search(targ_s) and not t["dest"]["p"]:
            dt = h.ty(t["dest"]["t"])["s"]
            if "Vec<" in dt or "VecDeque<" in dt:
                tainted[t["dest"]["l"]] = t["sp"].get("sn") or "collect()"
        if re.search(r"<impl \[T\]>::sort(_unstable)?(_by|_by_key)?$", name) and t["args"]:
            defs = mu.defs_of(h)
            for st in mu.trace_back(h, defs, mu.op_local(t["args"][0]) or -1):
                if st[2] == "term" and st[3]["args"]:
                    for st2 in mu.trace_back(h, defs, mu.op_local(st[3]["args"][0]) or -1):
                        if st2[2] != "term" and st2[3].get("k") == "ref":
                            tainted.pop(st2[3]["pl"]["l"], None)
                elif st[2] != "term" and st[3].get("k") == "ref":
                    tainted.pop(st[3]["pl"]["l"], None)
        if re.search(r"std::hash::Hash>::hash$", name) and t["args"]:
            defs = mu.defs_of(h)
            for st in mu.trace_back(h, defs, mu.op_local(t["args"][0]) or -1):
                if st[2] != "term" and st[3].get("k") == "ref" and st[3]["pl"]["l"] in tainted:
                    out.append(("hashes a Vec collected from a hash collection without sorting it first (%s)" % tainted[st[3]["pl"]["l"]],
                                tainted[st[3]["pl"]["l"]]))
    return out
