"""C20 Cached discovery records expire on time (partial: expiry is computed from the right quantities and checked on every read path)."""
import itertools
import re
from common import Report, Violation
import tables
from tables import Evaluator, EnumVal, Opaque, NotATable, Extractor
import mirutil as mu


def viol(report, rule, b, kind, msg):
    report.violate(Violation(report.key(b.qname, rule, kind, ""), "%s:%d" % (b.file, b.line), rule, "%s: %s" % (rule, msg)))


def term_has(t, pred):
    if pred(t):
        return True
    if isinstance(t, (tuple, list)):
        return any(term_has(x, pred) for x in t if isinstance(x, (tuple, list)))
    return False


def removal_precision(ctx, report, rule, b):
    """remove_resource_record removes the given record and nothing else: the only removals are HashMap::remove(<per-owner map>,
    <a &ResourceRecord>) and, optionally, dropping the owner's node once its map is_empty().  Dropping the node on any other
    condition (e.g. `len() <= 1` without looking at which record is stored) loses a record that was not asked to be removed."""
    prog = ctx.prog
    fam = [b] + mu.closures_of(prog, b)
    n_rec = 0
    bad = []
    for x in fam:
        dom = mu.dominators(x)
        defs = mu.defs_of(x)
        for bi, t in mu.calls(x, r"HashMap::<K, V, S, A>::(remove|remove_entry)$"):
            kt = x.ty(t["args"][1]["pl"]["t"])["s"] if t["args"][1].get("o") in ("copy", "move") else ""
            if "ResourceRecord" in kt:
                n_rec += 1
            else:
                bad.append("a per-owner map entry is removed by a key of type %s" % (kt or "?"))
        for bi, t in mu.calls(x, r"HashMap::<K, V, S, A>::(clear|retain|drain)$"):
            bad.append("the per-owner map is emptied with %s" % t["callee"]["def"].split("::")[-1])
        for bi, t in mu.calls(x, r"radix_trie::.*::(remove|remove_prefix)$"):
            # must be control-dependent on the true edge of `<map>.is_empty()`
            guarded = False
            for sb in dom[bi]:
                sw = x.blocks[sb]["term"]
                if sw["t"] != "switch" or sb == bi:
                    continue
                d = mu.single_def(defs, mu.op_local(sw["discr"]) if mu.op_local(sw["discr"]) is not None else -1)
                if d is None or d[1] != "term" or not re.search(r"HashMap::<K, V, S, A>::is_empty$|HashMap<K, V, S, A>::is_empty$", d[2]["callee"]["def"] if d[2].get("callee") else ""):
                    continue
                false_t = [tg for v, tg in sw["arms"] if int(v) == 0]
                if false_t and bi not in mu.reachable_from(x, false_t[0], avoid={sb}):
                    guarded = True
            if not guarded:
                bad.append("the owner's whole node is dropped (%s) without the per-owner map being known to be empty" % t["callee"]["def"].split("::")[-1])
    report.count()
    if n_rec < 1:
        bad.append("no HashMap::remove(<per-owner map>, &record) found")
    if bad:
        for m in sorted(set(bad)):
            report.violate(Violation(report.key(b.qname, rule, "removal-precision", m[:40]), "%s:%d" % (b.file, b.line), rule,
                                     "%s: remove_resource_record can remove records other than the one given: %s" % (rule, m)))
    else:
        report.nontriv("removal precision")
        report.sample({"rule": rule, "fn": b.qname, "removes": "HashMap::remove(per-owner map, &record) only"})


def run(ctx):
    prog = ctx.prog
    report = Report("C20", ctx, "R1 every record get_domain_resources yields passed DomainResourceFilter::match_filter (the only trie reads are "
                    "there and in get_next_refresh); R2 match_filter's decision table: Authoritative -> self.authoritative, Cached -> "
                    "self.cached AND expire_at > Instant::now(); R3 cached() excludes authoritative records and authoritative(_) excludes "
                    "cached ones; R4 add_cached_resource passes ttl = 1 under cache_flush, else resource.ttl, to ExpirationInfo::new, whose "
                    "expire_at is Instant::now() + from_secs(ttl); insertion replaces the stored expiry; R5 records leave the store only "
                    "through remove_resource_record / clear.")
    M = "simple_mdns::"
    B = {}
    for name, q in [("gdr", M + "ResourceRecordManager::get_domain_resources"), ("mf", M + "DomainResourceFilter::match_filter"),
                    ("cached", M + "DomainResourceFilter::cached"), ("auth", M + "DomainResourceFilter::authoritative"),
                    ("all", M + "DomainResourceFilter::all"), ("add_cached", M + "ResourceRecordManager::add_cached_resource"),
                    ("add_auth", M + "ResourceRecordManager::add_authoritative_resource"), ("exp_new", M + "ExpirationInfo::new"),
                    ("remove", M + "ResourceRecordManager::remove_resource_record"), ("clear", M + "ResourceRecordManager::clear"),
                    ("refresh", M + "ResourceRecordManager::get_next_refresh")]:
        B[name] = ctx.must_find(report, q)
    if any(v is None for v in B.values()):
        return report.finish()
    # ---- R2 match_filter table
    try:
        bad = []
        for auth, cached, later in itertools.product((0, 1), repeat=3):
            seen = {}

            def gt(vals):
                seen["args"] = (repr(vals[0]), repr(vals[1]))
                return later

            def lt(vals):                      # now() < expire_at  ==  expire_at > now()
                seen["args"] = (repr(vals[1]), repr(vals[0]))
                return later

            def ge(vals):                      # a >= b  ==  !(b > a): used as `now() >= expire_at` (expired)
                seen["args"] = (repr(vals[1]), repr(vals[0]))
                return int(not later)

            def le(vals):                      # a <= b  ==  !(a > b): `expire_at <= now()` (expired)
                seen["args"] = (repr(vals[0]), repr(vals[1]))
                return int(not later)
            hooks = {("call", "std::cmp::PartialOrd::gt"): gt, ("call", "std::cmp::PartialOrd::lt"): lt,
                     ("call", "std::cmp::PartialOrd::ge"): ge, ("call", "std::cmp::PartialOrd::le"): le,
                     ("call", "std::time::Instant::now"): lambda vals: Opaque("NOW")}
            ev = Evaluator(prog, hooks)
            flt = {"authoritative": auth, "cached": cached, "subdomain": 1}
            r1 = ev.call(B["mf"], [flt, EnumVal("ResourceRecordType", "Authoritative")])
            r2 = ev.call(B["mf"], [flt, EnumVal("ResourceRecordType", "Cached", [{"expire_at": Opaque("EXPIRE_AT"), "refresh_at": Opaque("REFRESH_AT")}])])
            report.count(2)
            if r1 != auth:
                bad.append("Authoritative record with filter.authoritative=%d -> %r" % (auth, r1))
            if r2 != int(cached and later):
                bad.append("Cached record, filter.cached=%d, expire_at>now=%d -> %r" % (cached, later, r2))
            if cached and seen.get("args") and seen["args"] != ("<opaque EXPIRE_AT>", "<opaque NOW>"):
                bad.append("the expiry test compares %s > %s instead of expire_at > Instant::now()" % seen["args"])
        if bad:
            viol(report, "C20-R2", B["mf"], "filter-table", "; ".join(bad[:3]))
        else:
            report.nontriv("match_filter table")
            report.sample({"fn": B["mf"].qname, "table": "Authoritative -> authoritative ; Cached(e) -> cached && e.expire_at > now()"})
        # ---- R3 constructors
        ev = Evaluator(prog)
        c = ev.call(B["cached"], [])
        a1 = ev.call(B["auth"], [1])
        a0 = ev.call(B["auth"], [0])
        report.count(3)

        def fld(v, n):
            adt = prog.adts["simple_mdns::resource_record_manager::DomainResourceFilter"]
            names = [f["name"] for f in adt["variants"][0]["fields"]]
            return v.f[names.index(n)] if isinstance(v, EnumVal) else None
        if fld(c, "authoritative") != 0 or fld(c, "cached") != 1:
            viol(report, "C20-R3", B["cached"], "ctor", "DomainResourceFilter::cached() = %r: cache-only queries must not return authoritative records" % (c,))
        elif fld(a1, "cached") != 0 or fld(a0, "cached") != 0 or fld(a1, "authoritative") != 1 or fld(a1, "subdomain") != 1 or fld(a0, "subdomain") != 0:
            viol(report, "C20-R3", B["auth"], "ctor", "DomainResourceFilter::authoritative(_) = %r / %r" % (a1, a0))
        else:
            report.nontriv("filter constructors")
    except NotATable as e:
        viol(report, "C20-R2", B["mf"], "not-a-table", "match_filter / the filter constructors are not decision tables: %s" % e)
    # ---- R1 every yielded record passed match_filter
    g = B["gdr"]
    fam = [g] + mu.closures_of(prog, g)

    def closure_is_filter(c0):
        """the closure returns Some(record) exactly when match_filter(type) is true"""
        try:
            for m in (0, 1):
                hooks = {("call", B["mf"].j["def"]): (lambda vals, m=m: m), ("call", B["mf"].id): (lambda vals, m=m: m)}
                ev = Evaluator(prog, hooks)
                r = ev.call(c0, [("closure", c0.id, ({"authoritative": 1},)), (Opaque("RECORD"), Opaque("TYPE"))])
                want = "Some" if m else "None"
                if not (isinstance(r, EnumVal) and r.v == want and (not m or r.f[0] == Opaque("RECORD"))):
                    return False, "the per-record closure returns %r when match_filter is %s" % (r, bool(m))
            return True, ""
        except NotATable as e:
            return False, str(e)

    def guarded_pushes(bb):
        """loop form: every Vec::push of the body sits under the true edge of a test of match_filter's result"""
        pushes = mu.calls(bb, r"^std::vec::Vec::<T, A>::push$")

        def pushes_record(t0):
            a1 = t0["args"][1]
            ts = bb.ty(a1["pl"]["t"])["s"] if a1.get("o") in ("copy", "move") else ""
            return ts.startswith("&") and "ResourceRecord" in ts
        # (a push of the per-domain vector of accepted records into the result is not a read of the store)
        pushes = [(pbi, pt) for pbi, pt in pushes if pushes_record(pt)]
        mfs = mu.calls(bb, r"DomainResourceFilter::match_filter$")
        if not pushes or not mfs:
            return False
        dom = mu.dominators(bb)
        defs2 = mu.defs_of(bb)
        good_regions = []
        for mbi, mt in mfs:
            sw = bb.blocks[mt["target"]]["term"] if mt["target"] is not None else None
            if sw is None or sw["t"] != "switch" or mu.origin_local(bb, defs2, mu.op_local(sw["discr"])) != mt["dest"]["l"]:
                continue
            false_t = [tg for v, tg in sw["arms"] if int(v) == 0]
            true_t = sw["otherwise"]
            if false_t and true_t != false_t[0]:
                good_regions.append(true_t)
        return bool(good_regions) and all(any(tt in dom[pbi] for tt in good_regions) for pbi, _ in pushes)
    n_filtered = 0
    for bb in fam:
        reads = mu.calls(bb, r"HashMap::<K, V, S, A>::(iter|values|keys|into_iter)$")
        for bi, t in reads:
            report.count()
            nxt = bb.blocks[t["target"]]["term"] if t["target"] is not None else None
            ok1 = False
            why = "records of a trie node are read at `%s` without going through the expiry filter" % (t["sp"].get("sn") or "")
            if nxt and nxt["t"] == "call" and nxt["callee"] and nxt["callee"]["def"] == "std::iter::Iterator::filter_map":
                cl = mu.single_def(mu.defs_of(bb), mu.op_local(nxt["args"][1]))
                cbody = prog.bodies.get(cl[2]["def"]) if cl is not None and cl[1] != "term" and cl[2].get("ak") == "closure" else None
                if cbody is None:
                    # the closure is a variable captured / defined in the enclosing function
                    for x in fam:
                        if x.kind == "Closure":
                            okc, _w = closure_is_filter(x)
                            if okc:
                                cbody = x
                                break
                if cbody is not None:
                    ok1, w2 = closure_is_filter(cbody)
                    if not ok1:
                        why = w2
            elif guarded_pushes(bb):
                ok1 = True
            if ok1:
                n_filtered += 1
                report.nontriv("filtered read %s bb%d" % (bb.qname, bi))
            else:
                viol(report, "C20-R1", bb, "unfiltered-read", why)
    report.floor("filtered reads of trie nodes in get_domain_resources", n_filtered, 2)
    # trie reads elsewhere
    readers = set()
    for b in prog.bodies.values():
        if b.crate != "simple_mdns" or b.kind == "Promoted":
            continue
        if mu.calls(b, r"radix_trie::.*::(get|subtrie|iter|get_ancestor|values|keys|get_raw_descendant)$|radix_trie::TrieCommon::(iter|values|keys)$"):
            readers.add(prog.bodies[b.root].qname if b.kind == "Closure" else b.qname)
    report.count()
    allowed = {B["gdr"].qname, B["refresh"].qname}
    if readers - allowed:
        viol(report, "C20-R1", B["gdr"], "other-readers", "the record store is also read in %s, outside the expiry filter" % sorted(readers - allowed))
    else:
        report.nontriv("trie readers")
    # ---- R4 insertion
    ex = Extractor(prog, B["add_cached"])
    leaves = ex.run()
    ttl_terms = {}
    for (conds, res), eff in zip(leaves, ex.leaf_effects):
        for name, args in eff:
            if name.endswith("ExpirationInfo::new"):
                flush = None
                for cnd in conds:
                    if cnd[0] in ("eq", "notin") and term_has(cnd[1], lambda t: isinstance(t, tuple) and len(t) > 2 and t[0] == "field" and t[2] == "cache_flush"):
                        flush = (cnd[0] == "notin") if cnd[0] == "notin" else (cnd[2] != 0)
                ttl_terms.setdefault(flush, set()).add(repr(args[0]))
    report.count()
    # every ExpirationInfo::new call sits under a test of cache_flush (no path computes an expiry without consulting the bit)
    ok4 = set(ttl_terms) == {True, False} and set(ttl_terms.get(True, [])) == {"('const', 1)"} and \
        len(ttl_terms.get(False, [])) == 1 and "'ttl'" in list(ttl_terms.get(False))[0]
    if ok4:
        report.nontriv("ttl selection")
        report.sample({"fn": B["add_cached"].qname, "ttl": "1 if resource.cache_flush else resource.ttl"})
    else:
        viol(report, "C20-R4", B["add_cached"], "ttl", "the TTL handed to ExpirationInfo::new is %s; required: 1 under cache_flush, else resource.ttl" % ttl_terms)
    # insertion replaces the expiry (HashMap::insert with the Cached(exp_info) value)
    ins = mu.calls(B["add_cached"], r"HashMap::<K, V, S, A>::insert$")
    report.count()
    if len(ins) < 2:
        viol(report, "C20-R4", B["add_cached"], "insert", "add_cached_resource does not insert (replace) the record in both the existing-node and new-node paths")
    else:
        report.nontriv("insert replaces")
    # ... on every path: the function cannot return without having stored the record (no early return for TTL 0 etc.)
    for nm in ("add_cached", "add_auth"):
        fb = B[nm]
        ins_blocks = set(bi for bi, t in mu.calls(fb, r"HashMap::<K, V, S, A>::insert$|radix_trie::.*::insert$"))
        rets = [bi for bi, bl in enumerate(fb.blocks) if bl["term"]["t"] == "return" and not bl["cleanup"]]
        free = mu.reachable_from(fb, 0, avoid=ins_blocks)
        report.count()
        if any(r in free for r in rets):
            viol(report, "C20-R4", fb, "skip-insert", "%s can return without storing the record (a path from entry to return avoids every insert): "
                 "a record received again keeps its old expiry" % fb.qname)
        else:
            report.nontriv("always inserts:" + nm)
    # registering a record as authoritative replaces whatever is stored for it (a cached copy learned earlier must not
    # survive the registration: authoritative records never expire and are what the responder answers with)
    insa = mu.calls(B["add_auth"], r"HashMap::<K, V, S, A>::insert$")
    soft = mu.calls(B["add_auth"], r"HashMap::<K, V, S, A>::(entry|try_insert|get_or_insert_with)$|Entry::<'a, K, V>::or_insert(_with)?$")
    report.count()
    if len(insa) < 2 or soft:
        viol(report, "C20-R4", B["add_auth"], "insert-auth", "add_authoritative_resource does not insert (replace) the record in both the "
             "existing-node and new-node paths (%d insert calls, non-replacing calls: %s): a record already cached stays Cached, "
             "expires, and is never answered as authoritative" % (len(insa), [t["callee"]["name"] for _, t in soft]))
    else:
        report.nontriv("authoritative insert replaces")
    # ExpirationInfo::new: expire_at = now + from_secs(ttl)
    try:
        el = tables.table_of(prog, B["exp_new"])
        okx = True
        for conds, res in el:
            if res[0] != "variant":
                okx = False
                continue
            fields = dict(zip(res[4], res[3]))
            ea = fields.get("expire_at")
            s = repr(ea)
            if not ("Instant as std::ops::Add<std::time::Duration>>::add" in s and "Instant::now" in s and "Duration::from_secs" in s and "('arg', 1)" in s):
                okx = False
        report.count()
        if okx and el:
            report.nontriv("expire_at")
            report.sample({"fn": B["exp_new"].qname, "expire_at": "Instant::now() + Duration::from_secs(ttl as u64)"})
        else:
            viol(report, "C20-R4", B["exp_new"], "expire-at", "expire_at is not Instant::now() + Duration::from_secs(ttl)")
    except NotATable as e:
        viol(report, "C20-R4", B["exp_new"], "not-a-table", str(e))
    # ---- R5 removals
    removers = set()
    for b in prog.bodies.values():
        if b.crate != "simple_mdns" or b.kind == "Promoted":
            continue
        root = prog.bodies.get(b.root, b)
        hit = bool(mu.calls(b, r"HashMap::<K, V, S, A>::(remove|remove_entry|clear|retain|drain)$|radix_trie::.*::(remove|remove_prefix)$"))
        # replacing the whole trie
        for bl in b.blocks:
            for s in bl["stmts"]:
                if s["s"] == "assign" and s["pl"]["p"] and any(isinstance(p, dict) and p.get("n") == "resources" for p in s["pl"]["p"]) \
                        and "ResourceRecordManager" in root.qname:
                    hit = True
        if hit and ("ResourceRecordManager" in root.qname or "resource_record_manager" in root.qname):
            removers.add(root.qname)
    report.count()
    allowed = {B["remove"].qname, B["clear"].qname, M + "ResourceRecordManager::new"}
    if removers - allowed:
        viol(report, "C20-R5", B["remove"], "removals", "records are also removed in %s" % sorted(removers - allowed))
    else:
        report.nontriv("removals")
    removal_precision(ctx, report, "C20-R5", B["remove"])
    # ---- R4 (key identity): the cache is a HashMap keyed by the record; a record received again replaces the stored entry (and its
    # expiry) only if it is the same key, so equality must not look at what legitimately differs between two receptions: the TTL
    # and the cache-flush bit
    import c16 as _c16
    eqb = prog.find("simple_dns::<ResourceRecord as PartialEq>::eq")
    report.count()
    if eqb is None:
        report.lost_anchor("simple_dns::<ResourceRecord as PartialEq>::eq")
    else:
        cmp_fields = _c16.fields_used(prog, eqb)
        extra = sorted(cmp_fields & {"ttl", "cache_flush"})
        if extra:
            viol(report, "C20-R4", eqb, "key-identity", "ResourceRecord equality compares %s: a record received again with another TTL (a "
                 "goodbye, a refresh) is a different HashMap key, so the stored entry keeps its first expiry and the new one is added "
                 "beside it" % extra)
        else:
            report.nontriv("cache key ignores ttl / cache_flush")
            report.sample({"rule": "R4", "compared": sorted(cmp_fields)})
    report.assumptions += ["behaviour over real elapsed time is not decided (histories with a wall clock); HashMap::insert keeping the old key "
                           "(first cache_flush / ttl fields of a re-received record) is value-level"]
    return report.finish()
