"""`slice.iter().try_for_each(closure)` / `.for_each(closure)` rewritten, on the MIR facts, into the loop it abbreviates:

        loop { match it.next() { None => break, Some(x) => { let r = closure(x); if r is Err { return-value = r; leave } } } }

so that every analysis that understands `for x in slice.iter() { .. }` (byte counts per element, emission order, loop progress)
reads the combinator form the same way.  Only plain slice iterators are rewritten (adapters such as Filter / Cloned keep their call),
and only when the closure is constructed in the same body (its code is then inlined into the loop by the caller of this module).
"""
import copy
import re

import mirutil as mu

SLICE_ITER = re.compile(r"^std::slice::Iter(Mut)?<")


def _find_templates(prog, crate):
    """a `next` call on a slice iterator and a discriminant read, taken from anywhere in the workspace, as templates"""
    nxt = None
    for b in prog.bodies.values():
        if b.crate != crate:
            continue
        for bl in b.j["blocks"]:
            t = bl["term"]
            if t["t"] == "call" and t.get("callee") and t["callee"]["def"] == "<std::slice::Iter<'a, T> as std::iter::Iterator>::next":
                nxt = t
                break
        if nxt:
            break
    return nxt


def _type_id(prog, crate, entry):
    """index of a type entry in the crate's type table, appended when missing"""
    tt = prog.types[crate]
    for i, e in enumerate(tt):
        if e.get("s") == entry["s"] and e.get("k") == entry["k"]:
            return i
    tt.append(entry)
    return len(tt) - 1


def rewrite(prog, c):
    """rewrite the eligible calls of body c in place; returns the list of (block index of the synthetic closure call, closure body)"""
    cj = c.j
    out = []
    tmpl = None
    bi = 0
    while bi < len(cj["blocks"]):
        bl = cj["blocks"][bi]
        t = bl["term"]
        bi += 1
        if bl["cleanup"] or t["t"] != "call" or not t.get("callee") or t["callee"]["def"] not in (
                "std::iter::Iterator::try_for_each", "std::iter::Iterator::for_each"):
            continue
        if len(t["args"]) != 2 or t["target"] is None or t["dest"]["p"]:
            continue
        a0, a1 = t["args"]
        if a0.get("o") != "move" or a0["pl"]["p"] or a1.get("o") not in ("move", "copy") or a1["pl"]["p"]:
            continue
        tt = prog.types[c.crate]
        it_ty = a0["pl"]["t"]
        if not SLICE_ITER.match(tt[it_ty]["s"]):
            continue
        is_try = t["callee"]["def"].endswith("try_for_each")
        dest_ty = t["dest"]["t"]
        if is_try and not tt[dest_ty]["s"].startswith("std::result::Result<()"):
            continue
        # the closure: an aggregate built in this body
        cl_local = a1["pl"]["l"]
        cdef = None
        for b2 in cj["blocks"]:
            for s in b2["stmts"]:
                if s["s"] == "assign" and not s["pl"]["p"] and s["pl"]["l"] == cl_local:
                    cdef = s["rv"] if cdef is None else False
        if not cdef or cdef.get("k") != "agg" or cdef.get("ak") != "closure":
            continue
        hb = prog.bodies.get(cdef["def"])
        if hb is None or hb.argc != 2 or hb.crate != c.crate:
            continue
        if tmpl is None:
            tmpl = _find_templates(prog, c.crate)
        if tmpl is None:
            continue
        item_ty = hb.j["locals"][2]["t"]
        env_ty = hb.j["locals"][1]["t"]
        elem_s = tt[item_ty]["s"]
        ref_it = _type_id(prog, c.crate, {"k": "ref", "mut": True, "t": it_ty, "s": "&mut " + tt[it_ty]["s"]})
        opt_ty = _type_id(prog, c.crate, {"k": "adt", "name": "std::option::Option", "args": [item_ty], "s": "std::option::Option<%s>" % elem_s})
        isize_ty = None
        for i, e in enumerate(tt):
            if e.get("k") == "int" and e.get("s") == "isize":
                isize_ty = i
        if isize_ty is None:
            continue
        sp = t["sp"]
        L = cj["locals"]

        def new_local(ty):
            L.append({"t": ty, "mut": True})
            return len(L) - 1
        it_l = a0["pl"]["l"]
        r_l, n_l, d_l, x_l, e_l = new_local(ref_it), new_local(opt_ty), new_local(isize_ty), new_local(item_ty), new_local(env_ty)
        res_l = new_local(hb.j["locals"][0]["t"])
        d2_l = new_local(isize_ty)
        B = cj["blocks"]
        base = len(B)
        H, S, U, Y, C, E, X = base, base + 1, base + 2, base + 3, base + 4, base + 5, base + 6
        target = t["target"]
        unwind = t.get("unwind")

        def place(l, ty, p=None):
            return {"l": l, "p": p or [], "t": ty}

        def assign(pl, rv):
            return {"s": "assign", "pl": pl, "rv": rv, "sp": sp}
        # head: _r = &mut _it ; _n = next(move _r)
        nx = copy.deepcopy(tmpl)
        nx["args"] = [{"o": "move", "pl": place(r_l, ref_it)}]
        nx["dest"] = place(n_l, opt_ty)
        nx["target"] = S
        nx["unwind"] = unwind
        nx["sp"] = sp
        nx["fsp"] = t.get("fsp")
        B.append({"stmts": [assign(place(r_l, ref_it), {"k": "ref", "mut": True, "pl": place(it_l, it_ty)})], "term": nx, "cleanup": False})
        B.append({"stmts": [assign(place(d_l, isize_ty), {"k": "discr", "pl": place(n_l, opt_ty)})],
                  "term": {"t": "switch", "discr": {"o": "move", "pl": place(d_l, isize_ty)}, "arms": [["0", X], ["1", Y]], "otherwise": U, "sp": sp},
                  "cleanup": False})
        B.append({"stmts": [], "term": {"t": "unreachable", "sp": sp}, "cleanup": False})
        some0 = place(n_l, item_ty, [{"dc": 1, "n": "Some"}, {"f": 0, "n": "0", "adt": "std::option::Option", "v": "Some"}])
        env_is_ref = tt[env_ty]["k"] == "ref"
        env_rv = {"k": "ref", "mut": bool(tt[env_ty].get("mut")), "pl": place(cl_local, a1["pl"]["t"])} if env_is_ref else \
            {"k": "use", "op": {"o": "move", "pl": place(cl_local, a1["pl"]["t"])}}
        call = {"t": "call", "callee": {"cargs": [], "may_call": [], "id": hb.id, "def": hb.j["def"], "full": hb.j["def"], "orig": hb.j["def"],
                                       "resolved": True, "trait_item": False, "trait": None, "targs": [], "crate": c.crate,
                                       "name": hb.j.get("name") or "{closure}", "local": True, "impl": None},
                "fop": None, "args": [{"o": "move", "pl": place(e_l, env_ty)}, {"o": "move", "pl": place(x_l, item_ty)}],
                "dest": place(res_l, hb.j["locals"][0]["t"]), "target": C if is_try else H, "unwind": unwind, "src": "Normal", "sp": sp,
                "fsp": t.get("fsp")}
        B.append({"stmts": [assign(place(x_l, item_ty), {"k": "use", "op": {"o": "copy", "pl": some0}}), assign(place(e_l, env_ty), env_rv)],
                  "term": call, "cleanup": False})
        # C: did the closure return an error?
        B.append({"stmts": [assign(place(d2_l, isize_ty), {"k": "discr", "pl": place(res_l, hb.j["locals"][0]["t"])})],
                  "term": {"t": "switch", "discr": {"o": "move", "pl": place(d2_l, isize_ty)}, "arms": [["0", H]], "otherwise": E, "sp": sp},
                  "cleanup": False})
        B.append({"stmts": [assign(place(t["dest"]["l"], dest_ty), {"k": "use", "op": {"o": "move", "pl": place(res_l, hb.j["locals"][0]["t"])}})],
                  "term": {"t": "goto", "target": target, "sp": sp}, "cleanup": False})
        if is_try:
            okv = {"k": "agg", "ak": "adt", "adt": "std::result::Result", "vn": "Ok", "vi": 0, "fields": ["0"],
                   "ops": [{"o": "const", "k": {"c": "zst", "t": _unit_ty(tt)}}]}
            xs = [assign(place(t["dest"]["l"], dest_ty), okv)]
        else:
            xs = [assign(place(t["dest"]["l"], dest_ty), {"k": "use", "op": {"o": "const", "k": {"c": "zst", "t": dest_ty}}})]
        B.append({"stmts": xs, "term": {"t": "goto", "target": target, "sp": sp}, "cleanup": False})
        bl["term"] = {"t": "goto", "target": H, "sp": sp}
        out.append((Y, hb))
    return out


def _unit_ty(tt):
    for i, e in enumerate(tt):
        if e.get("k") == "tuple" and e.get("s") == "()":
            return i
    return 0
