"""`slice.iter().try_for_each(closure)` / `.for_each(closure)` rewritten, on the MIR facts, into the loop it abbreviates:

        loop { match it.next() { None => break, Some(x) => { let r = closure(x); if r is Err { return-value = r; leave } } } }

so that every analysis that understands `for x in slice.iter() { .. }` (byte counts per element, emission order, loop progress)
reads the combinator form the same way.  Only plain slice iterators are rewritten (adapters such as Filter / Cloned keep their call),
and only when the closure is constructed in the same body (its code is then inlined into the loop by the caller of this module).
"""
import copy
import re

import mirutil as mu

SLICE_ITER = re.compile(r"^std::slice::Iter(Mut)?<")


def _find_templates(prog, crate):
    """a `next` call on a slice iterator and a discriminant read, taken from anywhere in the workspace, as templates"""
    nxt = None
    for b in prog.bodies.values():
        if b.crate != crate:
            continue
        for bl in b.j["blocks"]:
            t = bl["term"]
            if t["t"] == "call" and t.get("callee") and t["callee"]["def"] == "<std::slice::Iter<'a, T> as std::iter::Iterator>::next":
                nxt = t
                break
        if nxt:
            break
    return nxt


def _type_id(prog, crate, entry):
    """index of a type entry in the crate's type table, appended when missing"""
    tt = prog.types[crate]
    for i, e in enumerate(tt):
        if e.get("s") == entry["s"] and e.get("k") == entry["k"]:
            return i
    tt.append(entry)
    return len(tt) - 1


def rewrite(prog, c):
    """rewrite the eligible calls of body c in place; returns the list of (block index of the synthetic closure call, closure body)"""
    cj = c.j
    out = []
    tmpl = None
    bi = 0
    while bi < len(cj["blocks"]):
        bl = cj["blocks"][bi]
        t = bl["term"]
        bi += 1
        if bl["cleanup"] or t["t"] != "call" or not t.get("callee") or t["callee"]["def"] not in (
                "std::iter::Iterator::try_for_each", "std::iter::Iterator::for_each"):
            continue
        if len(t["args"]) != 2 or t["target"] is None or t["dest"]["p"]:
            continue
        a0, a1 = t["args"]
        if a0.get("o") != "move" or a0["pl"]["p"] or a1.get("o") not in ("move", "copy") or a1["pl"]["p"]:
            continue
        tt = prog.types[c.crate]
        it_ty = a0["pl"]["t"]
        # `try_for_each` takes `&mut self`, `for_each` takes the iterator by value
        by_ref = tt[it_ty]["k"] == "ref"
        arg_ty = it_ty
        if by_ref:
            it_ty = tt[it_ty]["t"]
        if not SLICE_ITER.match(tt[it_ty]["s"]):
            continue
        is_try = t["callee"]["def"].endswith("try_for_each")
        dest_ty = t["dest"]["t"]
        if is_try and not tt[dest_ty]["s"].startswith("std::result::Result<()"):
            continue
        # the closure: an aggregate built in this body
        cl_local = a1["pl"]["l"]
        cdef = None
        for b2 in cj["blocks"]:
            for s in b2["stmts"]:
                if s["s"] == "assign" and not s["pl"]["p"] and s["pl"]["l"] == cl_local:
                    cdef = s["rv"] if cdef is None else False
        if not cdef or cdef.get("k") != "agg" or cdef.get("ak") != "closure":
            continue
        hb = prog.bodies.get(cdef["def"])
        if hb is None or hb.argc != 2 or hb.crate != c.crate:
            continue
        if tmpl is None:
            tmpl = _find_templates(prog, c.crate)
        if tmpl is None:
            continue
        item_ty = hb.j["locals"][2]["t"]
        env_ty = hb.j["locals"][1]["t"]
        elem_s = tt[item_ty]["s"]
        ref_it = arg_ty if by_ref else _type_id(prog, c.crate, {"k": "ref", "mut": True, "t": it_ty, "s": "&mut " + tt[it_ty]["s"]})
        opt_ty = _type_id(prog, c.crate, {"k": "adt", "name": "std::option::Option", "args": [item_ty], "s": "std::option::Option<%s>" % elem_s})
        isize_ty = None
        for i, e in enumerate(tt):
            if e.get("k") == "int" and e.get("s") == "isize":
                isize_ty = i
        if isize_ty is None:
            continue
        sp = t["sp"]
        L = cj["locals"]

        def new_local(ty):
            L.append({"t": ty, "mut": True})
            return len(L) - 1
        it_l = a0["pl"]["l"]
        r_l, n_l, d_l, x_l, e_l = new_local(ref_it), new_local(opt_ty), new_local(isize_ty), new_local(item_ty), new_local(env_ty)
        res_l = new_local(hb.j["locals"][0]["t"])
        d2_l = new_local(isize_ty)
        B = cj["blocks"]
        base = len(B)
        H, S, U, Y, C, E, X = base, base + 1, base + 2, base + 3, base + 4, base + 5, base + 6
        target = t["target"]
        unwind = t.get("unwind")

        def place(l, ty, p=None):
            return {"l": l, "p": p or [], "t": ty}

        def assign(pl, rv):
            return {"s": "assign", "pl": pl, "rv": rv, "sp": sp}
        # head: _r = &mut _it ; _n = next(move _r)
        nx = copy.deepcopy(tmpl)
        nx["callee"]["targs"] = [it_ty]
        nx["callee"]["full"] = "<%s as std::iter::Iterator>::next" % tt[it_ty]["s"]
        nx["args"] = [{"o": "move", "pl": place(r_l, ref_it)}]
        nx["dest"] = place(n_l, opt_ty)
        nx["target"] = S
        nx["unwind"] = unwind
        nx["sp"] = sp
        nx["fsp"] = t.get("fsp")
        B.append({"stmts": [assign(place(r_l, ref_it), {"k": "ref", "mut": True, "pl": place(it_l, it_ty, ["d"] if by_ref else [])})],
                  "term": nx, "cleanup": False})
        B.append({"stmts": [assign(place(d_l, isize_ty), {"k": "discr", "pl": place(n_l, opt_ty)})],
                  "term": {"t": "switch", "discr": {"o": "move", "pl": place(d_l, isize_ty)}, "arms": [["0", X], ["1", Y]], "otherwise": U, "sp": sp},
                  "cleanup": False})
        B.append({"stmts": [], "term": {"t": "unreachable", "sp": sp}, "cleanup": False})
        some0 = place(n_l, item_ty, [{"dc": 1, "n": "Some"}, {"f": 0, "n": "0", "adt": "std::option::Option", "v": "Some"}])
        env_is_ref = tt[env_ty]["k"] == "ref"
        env_rv = {"k": "ref", "mut": bool(tt[env_ty].get("mut")), "pl": place(cl_local, a1["pl"]["t"])} if env_is_ref else \
            {"k": "use", "op": {"o": "move", "pl": place(cl_local, a1["pl"]["t"])}}
        call = {"t": "call", "callee": {"cargs": [], "may_call": [], "id": hb.id, "def": hb.j["def"], "full": hb.j["def"], "orig": hb.j["def"],
                                       "resolved": True, "trait_item": False, "trait": None, "targs": [], "crate": c.crate,
                                       "name": hb.j.get("name") or "{closure}", "local": True, "impl": None},
                "fop": None, "args": [{"o": "move", "pl": place(e_l, env_ty)}, {"o": "move", "pl": place(x_l, item_ty)}],
                "dest": place(res_l, hb.j["locals"][0]["t"]), "target": C if is_try else H, "unwind": unwind, "src": "Normal", "sp": sp,
                "fsp": t.get("fsp")}
        B.append({"stmts": [assign(place(x_l, item_ty), {"k": "use", "op": {"o": "copy", "pl": some0}}), assign(place(e_l, env_ty), env_rv)],
                  "term": call, "cleanup": False})
        # C: did the closure return an error?
        B.append({"stmts": [assign(place(d2_l, isize_ty), {"k": "discr", "pl": place(res_l, hb.j["locals"][0]["t"])})],
                  "term": {"t": "switch", "discr": {"o": "move", "pl": place(d2_l, isize_ty)}, "arms": [["0", H]], "otherwise": E, "sp": sp},
                  "cleanup": False})
        B.append({"stmts": [assign(place(t["dest"]["l"], dest_ty), {"k": "use", "op": {"o": "move", "pl": place(res_l, hb.j["locals"][0]["t"])}})],
                  "term": {"t": "goto", "target": target, "sp": sp}, "cleanup": False})
        if is_try:
            okv = {"k": "agg", "ak": "adt", "adt": "std::result::Result", "vn": "Ok", "vi": 0, "fields": ["0"],
                   "ops": [{"o": "const", "k": {"c": "zst", "t": _unit_ty(tt)}}]}
            xs = [assign(place(t["dest"]["l"], dest_ty), okv)]
        else:
            xs = [assign(place(t["dest"]["l"], dest_ty), {"k": "use", "op": {"o": "const", "k": {"c": "zst", "t": dest_ty}}})]
        B.append({"stmts": xs, "term": {"t": "goto", "target": target, "sp": sp}, "cleanup": False})
        bl["term"] = {"t": "goto", "target": H, "sp": sp}
        out.append((Y, hb))
    return out


def _unit_ty(tt):
    for i, e in enumerate(tt):
        if e.get("k") == "tuple" and e.get("s") == "()":
            return i
    return 0


ARRAY_INTO_ITER = "std::array::iter::<impl std::iter::IntoIterator for [T; N]>::into_iter"
ARRAY_NEXT = "<std::array::IntoIter<T, N> as std::iter::Iterator>::next"


def unroll_array_loops(prog, c, max_n=16):
    """`for x in [a, b, c] { body }` over an array literal built in the same function: the body once per element, in order, each copy
    reading its own element (what the loop does, spelled out; emission order and per-element facts then need no loop reasoning)."""
    import loops as loopmod
    cj = c.j
    n_done = 0
    for _round in range(4):
        c.blocks = cj["blocks"]
        c.locals = cj["locals"]
        c.preds = None
        defs = mu.defs_of(c)
        found = None
        for bi, t in mu.calls(c, r"^std::array::iter::<impl std::iter::IntoIterator for \[T; N\]>::into_iter$"):
            a = t["args"][0]
            if a.get("o") not in ("copy", "move") or a["pl"]["p"] or t["dest"]["p"]:
                continue
            src = mu.origin_local(c, defs, a["pl"]["l"])
            d = mu.single_def(defs, src) if src is not None else None
            if d is None or d[1] == "term" or d[2].get("k") != "agg" or d[2].get("ak") != "array" or not (0 < len(d[2]["ops"]) <= max_n):
                continue
            ops = d[2]["ops"]
            if not all(o.get("o") == "const" or (o.get("o") in ("copy", "move") and not o["pl"]["p"]) for o in ops):
                continue
            found = (bi, t, ops)
            break
        if found is None:
            break
        bi, t, ops = found
        it_locals = {t["dest"]["l"]}
        # the iterator may be moved once more (`_iter = move _it`)
        for bl in cj["blocks"]:
            for s in bl["stmts"]:
                if s["s"] == "assign" and not s["pl"]["p"] and s["rv"]["k"] == "use" and s["rv"]["op"].get("o") in ("copy", "move") and \
                        not s["rv"]["op"]["pl"]["p"] and s["rv"]["op"]["pl"]["l"] in it_locals:
                    it_locals.add(s["pl"]["l"])
        lps, _irr, _dom = loopmod.natural_loops(c)
        head = None
        for h, info in lps.items():
            ht = cj["blocks"][h]["term"]
            if ht["t"] == "call" and ht.get("callee") and ht["callee"]["def"] == ARRAY_NEXT and ht["target"] is not None and not ht["dest"]["p"]:
                r = mu.ref_root(c, mu.defs_of(c), mu.op_local(ht["args"][0])) if mu.op_local(ht["args"][0]) is not None else None
                if r in it_locals:
                    head = (h, info)
        if head is None:
            break
        h, info = head
        ht = cj["blocks"][h]["term"]
        n_l = ht["dest"]["l"]
        S = ht["target"]
        sw = cj["blocks"][S]["term"]
        if sw["t"] != "switch" or S not in info["body"]:
            break
        arms = {int(v): tg for v, tg in sw["arms"]}
        Y, X = arms.get(1), arms.get(0, sw["otherwise"] if 0 not in arms else None)
        if Y is None or X is None or Y not in info["body"] or X in info["body"]:
            break
        body = sorted(info["body"] - {h, S})
        B = cj["blocks"]
        entries = []
        maps = []
        for k in range(len(ops)):
            base = len(B)
            m = {old: base + i for i, old in enumerate(body)}
            maps.append(m)
            for old in body:
                B.append(copy.deepcopy(B[old]))
            entries.append(m[Y])
        for k, m in enumerate(maps):
            nxt = entries[k + 1] if k + 1 < len(entries) else X
            opk = copy.deepcopy(ops[k])
            if opk.get("o") == "move":
                opk["o"] = "copy"

            def fix_target(x):
                if x == h:
                    return nxt
                return m.get(x, x)
            for old in body:
                nb = B[m[old]]
                tt = nb["term"]
                for key in ("target", "otherwise"):
                    if isinstance(tt.get(key), int):
                        tt[key] = fix_target(tt[key])
                if "arms" in tt:
                    tt["arms"] = [[a0, fix_target(a1)] for a0, a1 in tt["arms"]]
                # the element: reads of (_n as Some).0 become the k-th operand of the literal
                for s in nb["stmts"]:
                    if s["s"] == "assign" and s["rv"]["k"] == "use" and s["rv"]["op"].get("o") in ("copy", "move"):
                        pl = s["rv"]["op"]["pl"]
                        if pl["l"] == n_l and len(pl["p"]) == 2 and isinstance(pl["p"][0], dict) and pl["p"][0].get("n") == "Some":
                            s["rv"] = {"k": "use", "op": opk}
        # enter the first copy instead of the loop head; the old loop is left unreachable
        first = entries[0]
        for i, bl in enumerate(B):
            if i in info["body"]:
                continue
            tt = bl["term"]
            for key in ("target", "otherwise"):
                if tt.get(key) == h and isinstance(tt.get(key), int):
                    tt[key] = first
            if "arms" in tt:
                tt["arms"] = [[a0, first if a1 == h else a1] for a0, a1 in tt["arms"]]
        B[h]["term"] = {"t": "unreachable", "sp": ht["sp"]}
        B[h]["stmts"] = []
        for old in body + [S]:
            B[old]["term"] = {"t": "unreachable", "sp": ht["sp"]}
            B[old]["stmts"] = []
        # the into_iter call itself stays (its result is only dropped)
        n_done += 1
    c.blocks = cj["blocks"]
    c.locals = cj["locals"]
    c.preds = None
    return n_done


RANGE_NEXT = "std::iter::range::<impl std::iter::Iterator for std::ops::Range<A>>::next"
SLICE_NEXT = "<std::slice::Iter<'a, T> as std::iter::Iterator>::next"


def _template(prog, crate, callee_def):
    for b in prog.bodies.values():
        if b.crate != crate:
            continue
        for bl in b.j["blocks"]:
            t = bl["term"]
            if t["t"] == "call" and t.get("callee") and t["callee"]["def"] == callee_def:
                return t
    return None


def rewrite_try_fold(prog, c):
    """`iter.try_fold(init, |acc, x| -> Result<Acc, E>)` over a range or a slice iterator, as the loop it abbreviates:
           let mut acc = init; loop { match it.next() { None => break Ok(acc), Some(x) => match f(acc, x) { Ok(a) => acc = a, e => break e } } }
    returns [(block index of the synthetic closure call, closure body)]"""
    cj = c.j
    out = []
    bi = 0
    while bi < len(cj["blocks"]):
        bl = cj["blocks"][bi]
        t = bl["term"]
        bi += 1
        if bl["cleanup"] or t["t"] != "call" or not t.get("callee") or t["callee"]["def"] != "std::iter::Iterator::try_fold":
            continue
        if len(t["args"]) != 3 or t["target"] is None or t["dest"]["p"]:
            continue
        a0, a1, a2 = t["args"]
        if any(a.get("o") not in ("move", "copy") or a["pl"]["p"] for a in (a0, a1, a2)):
            continue
        tt = prog.types[c.crate]
        arg_ty = a0["pl"]["t"]
        if tt[arg_ty]["k"] != "ref":
            continue
        it_ty = tt[arg_ty]["t"]
        its = tt[it_ty]["s"]
        if its.startswith("std::ops::Range<"):
            next_def = RANGE_NEXT
        elif SLICE_ITER.match(its):
            next_def = SLICE_NEXT
        else:
            continue
        dest_ty = t["dest"]["t"]
        if not tt[dest_ty]["s"].startswith("std::result::Result<"):
            continue
        cl_local = a2["pl"]["l"]
        cdef = None
        for b2 in cj["blocks"]:
            for s in b2["stmts"]:
                if s["s"] == "assign" and not s["pl"]["p"] and s["pl"]["l"] == cl_local:
                    cdef = s["rv"] if cdef is None else False
        if not cdef or cdef.get("k") != "agg" or cdef.get("ak") != "closure":
            continue
        hb = prog.bodies.get(cdef["def"])
        if hb is None or hb.argc != 3 or hb.crate != c.crate or hb.j["locals"][0]["t"] != dest_ty:
            continue
        tmpl = _template(prog, c.crate, next_def)
        if tmpl is None:
            continue
        acc_ty = hb.j["locals"][2]["t"]
        item_ty = hb.j["locals"][3]["t"]
        env_ty = hb.j["locals"][1]["t"]
        if acc_ty != a1["pl"]["t"]:
            continue
        opt_ty = _type_id(prog, c.crate, {"k": "adt", "name": "std::option::Option", "args": [item_ty], "s": "std::option::Option<%s>" % tt[item_ty]["s"]})
        isize_ty = None
        for i, e in enumerate(tt):
            if e.get("k") == "int" and e.get("s") == "isize":
                isize_ty = i
        if isize_ty is None:
            continue
        sp = t["sp"]
        L = cj["locals"]

        def new_local(ty):
            L.append({"t": ty, "mut": True})
            return len(L) - 1

        def place(l, ty, p=None):
            return {"l": l, "p": p or [], "t": ty}

        def assign(pl, rv):
            return {"s": "assign", "pl": pl, "rv": rv, "sp": sp}
        acc_l = a1["pl"]["l"]
        r_l, n_l, d_l, x_l, e_l, res_l, d2_l, accarg_l = (new_local(arg_ty), new_local(opt_ty), new_local(isize_ty), new_local(item_ty),
                                                          new_local(env_ty), new_local(dest_ty), new_local(isize_ty), new_local(acc_ty))
        B = cj["blocks"]
        base = len(B)
        H, S, U, Y, C, K, E, X = (base + i for i in range(8))
        target, unwind = t["target"], t.get("unwind")
        nx = copy.deepcopy(tmpl)
        nx["callee"]["targs"] = [it_ty]
        nx["callee"]["full"] = "<%s as std::iter::Iterator>::next" % its
        nx["args"] = [{"o": "move", "pl": place(r_l, arg_ty)}]
        nx["dest"] = place(n_l, opt_ty)
        nx["target"] = S
        nx["unwind"] = unwind
        nx["sp"] = sp
        nx["fsp"] = t.get("fsp")
        B.append({"stmts": [assign(place(r_l, arg_ty), {"k": "ref", "mut": True, "pl": place(a0["pl"]["l"], it_ty, ["d"])})], "term": nx, "cleanup": False})
        B.append({"stmts": [assign(place(d_l, isize_ty), {"k": "discr", "pl": place(n_l, opt_ty)})],
                  "term": {"t": "switch", "discr": {"o": "move", "pl": place(d_l, isize_ty)}, "arms": [["0", X], ["1", Y]], "otherwise": U, "sp": sp},
                  "cleanup": False})
        B.append({"stmts": [], "term": {"t": "unreachable", "sp": sp}, "cleanup": False})
        some0 = place(n_l, item_ty, [{"dc": 1, "n": "Some"}, {"f": 0, "n": "0", "adt": "std::option::Option", "v": "Some"}])
        env_is_ref = tt[env_ty]["k"] == "ref"
        env_rv = {"k": "ref", "mut": bool(tt[env_ty].get("mut")), "pl": place(cl_local, a2["pl"]["t"])} if env_is_ref else \
            {"k": "use", "op": {"o": "move", "pl": place(cl_local, a2["pl"]["t"])}}
        call = {"t": "call", "callee": {"cargs": [], "may_call": [], "id": hb.id, "def": hb.j["def"], "full": hb.j["def"], "orig": hb.j["def"],
                                       "resolved": True, "trait_item": False, "trait": None, "targs": [], "crate": c.crate,
                                       "name": hb.j.get("name") or "{closure}", "local": True, "impl": None},
                "fop": None, "args": [{"o": "move", "pl": place(e_l, env_ty)}, {"o": "move", "pl": place(accarg_l, acc_ty)},
                                      {"o": "move", "pl": place(x_l, item_ty)}],
                "dest": place(res_l, dest_ty), "target": C, "unwind": unwind, "src": "Normal", "sp": sp, "fsp": t.get("fsp")}
        B.append({"stmts": [assign(place(x_l, item_ty), {"k": "use", "op": {"o": "copy", "pl": some0}}), assign(place(e_l, env_ty), env_rv),
                            assign(place(accarg_l, acc_ty), {"k": "use", "op": {"o": "move", "pl": place(acc_l, acc_ty)}})],
                  "term": call, "cleanup": False})
        B.append({"stmts": [assign(place(d2_l, isize_ty), {"k": "discr", "pl": place(res_l, dest_ty)})],
                  "term": {"t": "switch", "discr": {"o": "move", "pl": place(d2_l, isize_ty)}, "arms": [["0", K]], "otherwise": E, "sp": sp},
                  "cleanup": False})
        ok0 = place(res_l, acc_ty, [{"dc": 0, "n": "Ok"}, {"f": 0, "n": "0", "adt": "std::result::Result", "v": "Ok"}])
        B.append({"stmts": [assign(place(acc_l, acc_ty), {"k": "use", "op": {"o": "move", "pl": ok0}})], "term": {"t": "goto", "target": H, "sp": sp},
                  "cleanup": False})
        B.append({"stmts": [assign(place(t["dest"]["l"], dest_ty), {"k": "use", "op": {"o": "move", "pl": place(res_l, dest_ty)}})],
                  "term": {"t": "goto", "target": target, "sp": sp}, "cleanup": False})
        okv = {"k": "agg", "ak": "adt", "adt": "std::result::Result", "vn": "Ok", "vi": 0, "fields": ["0"], "union_field": None,
               "ops": [{"o": "move", "pl": place(acc_l, acc_ty)}]}
        B.append({"stmts": [assign(place(t["dest"]["l"], dest_ty), okv)], "term": {"t": "goto", "target": target, "sp": sp}, "cleanup": False})
        bl["term"] = {"t": "goto", "target": H, "sp": sp}
        out.append((Y, hb))
    return out


RESULT_MAP = "std::result::Result::<T, E>::map"


def rewrite_result_map(prog, c):
    """`result.map(closure)` with a closure built in the same body, as the `match` it abbreviates:
           match result { Ok(x) => Ok(closure(x)), Err(e) => Err(e) }
    so that a value the closure stores in a field (`Name::parse(..).map(|host| Self { preference, host })`) is seen stored there.
    returns [(block index of the synthetic closure call, closure body)]"""
    cj = c.j
    out = []
    bi = 0
    while bi < len(cj["blocks"]):
        bl = cj["blocks"][bi]
        t = bl["term"]
        bi += 1
        if bl["cleanup"] or t["t"] != "call" or not t.get("callee") or t["callee"]["def"] != RESULT_MAP:
            continue
        if len(t["args"]) != 2 or t["target"] is None or t["dest"]["p"]:
            continue
        a0, a1 = t["args"]
        if any(a.get("o") not in ("move", "copy") or a["pl"]["p"] for a in (a0, a1)):
            continue
        tt = prog.types[c.crate]
        src_ty, dest_ty = a0["pl"]["t"], t["dest"]["t"]
        if not tt[src_ty]["s"].startswith("std::result::Result<") or not tt[dest_ty]["s"].startswith("std::result::Result<"):
            continue
        if tt[src_ty].get("k") != "adt" or tt[dest_ty].get("k") != "adt" or len(tt[src_ty].get("args") or []) != 2 or \
                len(tt[dest_ty].get("args") or []) != 2:
            continue
        cl_local = a1["pl"]["l"]
        cdef = None
        for b2 in cj["blocks"]:
            for s in b2["stmts"]:
                if s["s"] == "assign" and not s["pl"]["p"] and s["pl"]["l"] == cl_local:
                    cdef = s["rv"] if cdef is None else False
        if not cdef or cdef.get("k") != "agg" or cdef.get("ak") != "closure":
            continue
        hb = prog.bodies.get(cdef["def"])
        if hb is None or hb.argc != 2 or hb.crate != c.crate:
            continue
        item_ty = hb.j["locals"][2]["t"]
        env_ty = hb.j["locals"][1]["t"]
        ret_ty = hb.j["locals"][0]["t"]
        ok_ty, err_ty = tt[src_ty]["args"]
        if item_ty != ok_ty or ret_ty != tt[dest_ty]["args"][0] or err_ty != tt[dest_ty]["args"][1]:
            continue
        if tt[env_ty]["k"] == "ref":
            continue          # `map` takes an FnOnce: the environment is the closure value itself
        isize_ty = None
        for i, e in enumerate(tt):
            if e.get("k") == "int" and e.get("s") == "isize":
                isize_ty = i
        if isize_ty is None:
            continue
        sp = t["sp"]
        L = cj["locals"]

        def new_local(ty):
            L.append({"t": ty, "mut": True})
            return len(L) - 1

        def place(l, ty, p=None):
            return {"l": l, "p": p or [], "t": ty}

        def assign(pl, rv):
            return {"s": "assign", "pl": pl, "rv": rv, "sp": sp}
        r_l = a0["pl"]["l"]
        d_l, x_l, e_l, res_l, err_l = new_local(isize_ty), new_local(item_ty), new_local(env_ty), new_local(ret_ty), new_local(err_ty)
        B = cj["blocks"]
        base = len(B)
        S, U, Y, K, E = (base + i for i in range(5))
        target, unwind = t["target"], t.get("unwind")
        B.append({"stmts": [assign(place(d_l, isize_ty), {"k": "discr", "pl": place(r_l, src_ty)})],
                  "term": {"t": "switch", "discr": {"o": "move", "pl": place(d_l, isize_ty)}, "arms": [["0", Y], ["1", E]], "otherwise": U, "sp": sp},
                  "cleanup": False})
        B.append({"stmts": [], "term": {"t": "unreachable", "sp": sp}, "cleanup": False})
        ok0 = place(r_l, item_ty, [{"dc": 0, "n": "Ok"}, {"f": 0, "n": "0", "adt": "std::result::Result", "v": "Ok"}])
        er0 = place(r_l, err_ty, [{"dc": 1, "n": "Err"}, {"f": 0, "n": "0", "adt": "std::result::Result", "v": "Err"}])
        call = {"t": "call", "callee": {"cargs": [], "may_call": [], "id": hb.id, "def": hb.j["def"], "full": hb.j["def"], "orig": hb.j["def"],
                                       "resolved": True, "trait_item": False, "trait": None, "targs": [], "crate": c.crate,
                                       "name": hb.j.get("name") or "{closure}", "local": True, "impl": None},
                "fop": None, "args": [{"o": "move", "pl": place(e_l, env_ty)}, {"o": "move", "pl": place(x_l, item_ty)}],
                "dest": place(res_l, ret_ty), "target": K, "unwind": unwind, "src": "Normal", "sp": sp, "fsp": t.get("fsp")}
        B.append({"stmts": [assign(place(x_l, item_ty), {"k": "use", "op": {"o": "move", "pl": ok0}}),
                            assign(place(e_l, env_ty), {"k": "use", "op": {"o": "move", "pl": place(cl_local, a1["pl"]["t"])}})],
                  "term": call, "cleanup": False})
        okv = {"k": "agg", "ak": "adt", "adt": "std::result::Result", "vn": "Ok", "vi": 0, "fields": ["0"], "union_field": None,
               "ops": [{"o": "move", "pl": place(res_l, ret_ty)}]}
        B.append({"stmts": [assign(place(t["dest"]["l"], dest_ty), okv)], "term": {"t": "goto", "target": target, "sp": sp}, "cleanup": False})
        erv = {"k": "agg", "ak": "adt", "adt": "std::result::Result", "vn": "Err", "vi": 1, "fields": ["0"], "union_field": None,
               "ops": [{"o": "move", "pl": place(err_l, err_ty)}]}
        B.append({"stmts": [assign(place(err_l, err_ty), {"k": "use", "op": {"o": "move", "pl": er0}}), assign(place(t["dest"]["l"], dest_ty), erv)],
                  "term": {"t": "goto", "target": target, "sp": sp}, "cleanup": False})
        bl["term"] = {"t": "goto", "target": S, "sp": sp}
        out.append((Y, hb))
    return out
