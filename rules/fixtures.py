"""Checker self-test: the rule engines are run on /verif/fixtures/fx_rules (known-good / known-bad twins) on every check;
every bad twin must be reported and every good twin must be silent.  A rule that matches nothing passes vacuously forever -
this is what prevents it."""
import facts
import callgraph
import panics
import loops
import mirutil as mu
import tables
import layout


class _Ctx:
    pass


def run_selftest():
    """returns (ok, list of result dicts)"""
    fdir = facts.build_fixture_facts()
    prog = facts.Program(fdir)
    cg = callgraph.CallGraph(prog)
    whole = panics.Whole(prog, cg)
    ctx = _Ctx()
    ctx.prog, ctx.cg, ctx.whole = prog, cg, whole
    res = []

    def record(rule, name, expected_bad, reported):
        res.append({"rule": rule, "fixture": name, "expected": "reported" if expected_bad else "silent",
                    "got": "reported" if reported else "silent", "ok": expected_bad == reported})

    def body(q):
        b = prog.find(q)
        if b is None:
            res.append({"rule": "anchor", "fixture": q, "expected": "present", "got": "missing", "ok": False})
        return b
    # panic obligations
    for name, bad in [("bad_fixed_read", True), ("good_fixed_read", False), ("bad_off_by_one", True), ("good_get", False),
                      ("bad_unsigned_sub", True), ("good_unsigned_sub", False), ("bad_unwrap", True), ("good_lossy", False),
                      ("bad_alloc", True), ("bad_alloc_u16", True), ("good_alloc", False),
                      ("good_split_first", False), ("bad_split_second", True), ("good_masked_guard", False),
                      ("bad_masked_guard", True), ("good_get_range", False), ("bad_get_range", True), ("good_get_elem", False)]:
        b = body("fx_rules::" + name)
        if b is None:
            continue
        an = whole.results[b.id]
        record("panic-site discharge", name, bad, any(not o.ok for o in an.obligations))
    # loops
    for name, bad in [("bad_loop_no_progress", True), ("good_loop_cursor", False), ("good_loop_iter", False)]:
        b = body("fx_rules::" + name)
        if b is None:
            continue
        lps, irr, dom = loops.natural_loops(b)
        rep = False
        for h, info in lps.items():
            tpl, why = loops.check_loop(ctx, b, whole.results[b.id], h, info, dom)
            if tpl is None:
                rep = True
        record("loop progress", name, bad, rep or not lps)
    # fmt::Error construction
    for name, bad in [("BadText", True), ("GoodText", False)]:
        b = body("fx_rules::<%s as Display>::fmt" % name)
        if b is None:
            continue
        record("fmt::Error constructed in Display", name, bad, bool(mu.aggregates(b, "fmt::Error")))
    # order-dependent hash
    import c16
    for name, bad in [("BadKey", True), ("GoodKey", False)]:
        b = body("fx_rules::<%s as Hash>::hash" % name)
        if b is None:
            continue
        record("hash in hash-collection order", name, bad, bool(c16.unordered_feeds(prog, b)))
    for name, bad in [("BadCaseKey", True), ("GoodCaseKey", False)]:
        e, hh = body("fx_rules::<%s as PartialEq>::eq" % name), body("fx_rules::<%s as Hash>::hash" % name)
        if e is None or hh is None:
            continue
        record("equality normalises, hash does not", name, bad, bool(c16.normalisers(prog, cg, e) - c16.normalisers(prog, cg, hh)))
    # tables
    ev = tables.Evaluator(prog)
    f, g, gb = body("fx_rules::good_code_from"), body("fx_rules::good_code_to"), body("fx_rules::bad_code_to")
    if f and g and gb:
        bad_good = [c for c in range(0, 1024) if ev.call(g, [ev.call(f, [c])]) != c]
        bad_bad = [c for c in range(0, 1024) if ev.call(gb, [ev.call(f, [c])]) != c]
        record("table round trip", "good_code_to", False, bool(bad_good))
        record("table round trip", "bad_code_to", True, bool(bad_bad))
    # char narrowing
    for name, bad in [("bad_char_cast", True), ("good_char_cmp", False)]:
        b = body("fx_rules::" + name)
        if b is None:
            continue
        hit = False
        for bb in [b] + mu.closures_of(prog, b):
            for bl in bb.blocks:
                for s in bl["stmts"]:
                    if s["s"] == "assign" and s["rv"]["k"] == "cast" and s["rv"]["ck"] == "IntToInt" and s["rv"]["op"]["o"] in ("copy", "move"):
                        if bb.ty(s["rv"]["op"]["pl"]["t"])["k"] == "char" and bb.ty(s["rv"]["t"])["k"] == "int" and bb.ty(s["rv"]["t"])["w"] < 32:
                            hit = True
        record("char narrowing", name, bad, hit)
    # writer byte count vs len
    w = body("fx_rules::Rec::write_to")
    if w is not None:
        wl, why = layout.written_length(whole.results[w.id], whole.results)
        for name, bad in [("good_len", False), ("bad_len", True)]:
            lb = body("fx_rules::Rec::" + name)
            if lb is None:
                continue
            ll, why2 = layout.len_value(whole.results[lb.id])
            same = wl is not None and ll is not None and wl["lin"] == ll["lin"] and repr(wl["reps"]) == repr(ll["reps"])
            record("len() vs bytes written", name, bad, not same)
    lb = body("fx_rules::Maps::len")
    if lb is not None:
        ll, why2 = layout.len_value(whole.results[lb.id])
        for name, bad in [("good_write_sorted", False), ("bad_write_dedup", True)]:
            w = body("fx_rules::Maps::" + name)
            if w is None:
                continue
            wl, why = layout.written_length(whole.results[w.id], whole.results)
            same = wl is not None and ll is not None and wl["lin"] == ll["lin"] and repr(wl["reps"]) == repr(ll["reps"])
            record("len() vs bytes written (cloned source)", name, bad, not same)
    return all(r["ok"] for r in res), res
