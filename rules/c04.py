"""C04 Serialised messages are well-framed and all writers agree."""
import re
from common import Report, Violation, where_of, load_tsv
from lin import Lin, entails
import layout
import mirutil as mu
import panicrule
import loops


def viol(report, rule, b, kind, msg, sn=""):
    report.violate(Violation(report.key(b.qname, rule, kind, sn), "%s:%d" % (b.file, b.line), rule, "%s: %s" % (rule, msg)))


def fmt_form(f):
    if f is None:
        return "?"
    s = repr(f["lin"])
    for src, per in f["reps"]:
        s += " + sum over %s of (%r)" % (src, per)
    return s


def same_form(w, l):
    return w is not None and l is not None and w["lin"] == l["lin"] and repr(w["reps"]) == repr(l["reps"])


def len_vs_write(ctx, report, rule="C04-R1"):
    """R1: for every WireFormat impl, len() equals the number of bytes write_to emits"""
    prog, W = ctx.prog, ctx.whole
    undecided = {r[0]: r[1] for r in load_tsv("len_undecided.tsv")}
    wbs = sorted(prog.method_bodies("wire_format::WireFormat", "write_to"), key=lambda x: x.qname)
    lbs = {b.impl["self_s"]: b for b in prog.method_bodies("wire_format::WireFormat", "len")}
    report.floor("WireFormat impls (write_to / len pairs)", len(wbs), 47)
    skipped = []
    for wb in wbs:
        lb = lbs.get(wb.impl["self_s"])
        tname = wb.impl["self_s"].split("::")[-1].split("<")[0]
        report.count()
        if lb is None:
            viol(report, rule, wb, "no-len", "%s has write_to but no len()" % tname)
            continue
        if tname in undecided:
            skipped.append({"type": tname, "reason": undecided[tname]})
            continue
        w, why = layout.written_length(W.results[wb.id], W.results)
        l, why2 = layout.len_value(W.results[lb.id])
        if same_form(w, l):
            report.nontriv("len:" + tname)
            report.sample({"type": tname, "write_to emits": fmt_form(w), "len()": fmt_form(l)}, cap=14)
            continue
        # cached-length field (NULL): len() returns a field that every constructor sets to the data length
        if w is not None and l is not None and not w["reps"] and not l["reps"]:
            ok, why3 = cached_length_field(ctx, wb, w["lin"], l["lin"])
            if ok:
                report.nontriv("len-cache:" + tname)
                report.sample({"type": tname, "len()": "cached field", "holds_because": why3})
                continue
        # per-variant comparison for bodies that match on an enum rooted at self
        vw = layout.self_variants(prog, W.results[wb.id])
        vl = layout.self_variants(prog, W.results[lb.id])
        if vw and set(vw) == set(vl):
            all_ok = True
            for key, vs in sorted(vw.items()):
                for (vn, dv) in vs:
                    aw = layout.analyse(ctx, wb, {key: dv})
                    al = layout.analyse(ctx, lb, {key: dv})
                    w2, y1 = layout.written_length(aw, W.results)
                    l2, y2 = layout.len_value(al)
                    report.count()
                    if same_form(w2, l2):
                        report.nontriv("len:%s::%s" % (tname, vn))
                    else:
                        all_ok = False
                        viol(report, rule, lb, "len-vs-write",
                             "%s (variant %s of %s): write_to emits %s bytes but len() returns %s: the uncompressed RDLENGTH / "
                             "section framing computed from len() disagrees with what is written" % (
                                 tname, vn, key, fmt_form(w2) if w2 else "[" + y1 + "]", fmt_form(l2) if l2 else "[" + y2 + "]"), vn)
            if all_ok:
                report.sample({"type": tname, "compared": "per variant of %s" % sorted(vw)})
            continue
        if w is None or l is None:
            viol(report, rule, wb, "unextractable", "%s: cannot extract %s (%s): len() == bytes written cannot be shown" % (
                tname, "write_to" if w is None else "len()", why if w is None else why2))
        else:
            viol(report, rule, lb, "len-vs-write", "%s: write_to emits %s bytes but len() returns %s: the uncompressed RDLENGTH computed "
                 "from len() disagrees with the bytes that follow it" % (tname, fmt_form(w), fmt_form(l)))
    report.extra["len_not_decided"] = skipped
    return len(wbs)


def cached_length_field(ctx, wb, wlin, llin):
    """len() = self.<F> and write_to emits len(self.<G>) bytes: every constructor must set F to the length of G"""
    prog, W = ctx.prog, ctx.whole
    if len(wlin.t) != 1 or len(llin.t) != 1 or wlin.c or llin.c:
        return False, ""
    mw = re.match(r"^len\(\(\*_1\)\.(\w+)\)$", wlin.t[0][0])
    ml = re.match(r"^\(\*_1\)\.(\w+)@", llin.t[0][0])
    if not mw or not ml:
        return False, ""
    G, F = mw.group(1), ml.group(1)
    adt_short = wb.impl["self_s"].split("::")[-1].split("<")[0]
    n = 0
    for b in prog.bodies.values():
        if b.kind == "Promoted" or b.name in ("into_owned", "clone"):
            continue
        aggs = [a for a in mu.aggregates(b) if a[2]["rv"]["adt"].split("::")[-1] == adt_short]
        if not aggs:
            continue
        an = W.results.get(b.id)
        if an is None:
            return False, "constructor %s not analysed" % b.qname
        found = False
        for bi, st, v in an.ok_points:
            vals = []
            if v and v[0] == "adt":
                stack = [v]
                while stack:
                    x = stack.pop()
                    if x and x[0] == "adt":
                        if x[1] == adt_short:
                            vals.append(x)
                        stack.extend([y for y in x[3] if y])
            for x in vals:
                fields = dict(zip(x[4], x[3]))
                fv, gv = fields.get(F), fields.get(G)
                glen = None
                stack = [gv]
                while stack:
                    y = stack.pop()
                    if y is None:
                        continue
                    if y[0] == "slice":
                        glen = st.store.get("len:" + y[1])
                    elif y[0] == "adt":
                        stack.extend(y[3])
                if fv is None or fv[0] != "lin" or glen is None or fv[1] != glen[1]:
                    return False, "%s sets %s to %s, not to the length of %s" % (b.qname, F, fv, G)
                found = True
                n += 1
        if not found:
            return False, "cannot see the %s value built in %s" % (adt_short, b.qname)
    if n == 0:
        return False, "no constructor found"
    return True, "field `%s` is private and every constructor (%d) sets it to the length of `%s`" % (F, n, G)


def _iter_sources(b, defs, op, depth=0):
    """fields of self an iterator expression walks, in order: `self.f.iter()`, `(&self.f).into_iter()`, `a.chain(b)`"""
    if depth > 6:
        return None
    l = mu.op_local(op)
    cur = l
    for _ in range(10):
        d = mu.single_def(defs, cur) if cur is not None else None
        if d is None:
            return None
        if d[1] == "term":
            t = d[2]
            cal = t["callee"]["def"] if t["callee"] else ""
            if cal == "std::iter::Iterator::chain":
                a = _iter_sources(b, defs, t["args"][0], depth + 1)
                c = _iter_sources(b, defs, t["args"][1], depth + 1)
                return (a + c) if a is not None and c is not None else None
            if cal.endswith("<impl [T]>::iter") or cal.endswith("IntoIterator>::into_iter") or cal.endswith("as std::ops::Deref>::deref"):
                cur = mu.op_local(t["args"][0])
                continue
            return None
        rv = d[2]
        if rv.get("k") == "ref":
            fs = [p["n"] for p in rv["pl"]["p"] if isinstance(p, dict) and "f" in p and p.get("n")]
            if rv["pl"]["l"] == 1 and fs:
                return ["(*_1)." + fs[0]]
            cur = rv["pl"]["l"] if not fs else None
            continue
        if rv.get("k") in ("use", "cast") and rv["op"].get("o") in ("copy", "move"):
            pl = rv["op"]["pl"]
            fs = [p["n"] for p in pl["p"] if isinstance(p, dict) and "f" in p and p.get("n")]
            if pl["l"] == 1 and fs:
                return ["(*_1)." + fs[0]]
            cur = pl["l"]
            continue
        return None
    return None


def txt_size_cache(ctx, report, rule="C04-R1"):
    """TXT::len() returns the cached field `size`; RDLENGTH is right only if size == sum(len(s) + 1) over the strings.  That
    invariant is established by a closed set of sites, each of a recognisable form; any other construction of a TXT or write
    to `.size` is reported (who-may-write)."""
    prog = ctx.prog
    ALLOWED = {
        "simple_dns::TXT::new": "empty strings, size 0",
        "simple_dns::TXT::add_char_string": "size += char_string.len() next to strings.push(char_string)",
        "simple_dns::TXT::into_owned": "size copied with the strings",
        "simple_dns::<TXT as WireFormat>::parse": "size = cursor advance over the consecutively parsed strings",
        "simple_dns::<TXT as Clone>::clone": "derived",
    }
    n = 0
    for b in sorted(prog.bodies.values(), key=lambda x: x.qname):
        if b.crate != "simple_dns" or b.kind == "Promoted":
            continue
        owner = prog.bodies.get(b.root, b) if b.kind == "Closure" else b
        sites = []
        for bi, si, s1 in mu.aggregates(b, "txt::TXT"):
            sites.append(("constructs a TXT", s1))
        for bl in b.blocks:
            if bl["cleanup"]:
                continue
            for s1 in bl["stmts"]:
                if s1["s"] == "assign" and s1["pl"]["p"] and isinstance(s1["pl"]["p"][-1], dict) and s1["pl"]["p"][-1].get("n") == "size" \
                        and s1["pl"]["p"][-1].get("adt", "").endswith("txt::TXT"):
                    sites.append(("writes TXT.size", s1))
        for what, s1 in sites:
            n += 1
            report.count()
            if owner.qname not in ALLOWED:
                viol(report, rule, b, "txt-size-cache", "%s %s outside the functions that maintain the cached length (%s): TXT::len(), and with it "
                     "the RDLENGTH written by the uncompressed writers, is only right while size == sum of (string length + 1)" % (
                         b.qname, what, ", ".join(sorted(x.split("::", 1)[1] for x in ALLOWED))), what)
                continue
            okf = True
            defs = mu.defs_of(b)
            if owner.qname.endswith("TXT::new") and what.startswith("constructs"):
                szi = list(s1["rv"]["fields"]).index("size")
                o = s1["rv"]["ops"][szi]
                okf = o["o"] == "const" and int(o["k"]["v"]) == 0
            elif owner.qname.endswith("TXT::into_owned") and what.startswith("constructs"):
                szi = list(s1["rv"]["fields"]).index("size")
                o = s1["rv"]["ops"][szi]
                cur = o
                okf = False
                for _ in range(4):
                    if cur.get("o") in ("copy", "move") and any(isinstance(p, dict) and p.get("n") == "size" for p in cur["pl"]["p"]) and cur["pl"]["l"] == 1:
                        okf = True
                        break
                    d = mu.single_def(defs, mu.op_local(cur)) if mu.op_local(cur) is not None else None
                    if d is None or d[1] == "term" or d[2].get("k") != "use":
                        break
                    cur = d[2]["op"]
            elif owner.qname.endswith("add_char_string"):
                lens = mu.calls(b, r"CharacterString.*::len$")
                pushes = mu.calls(b, r"Vec::<T, A>::push$")
                adds = [s2 for bl in b.blocks for s2 in bl["stmts"] if s2["s"] == "assign" and s2["rv"]["k"] == "bin" and s2["rv"]["op"].startswith("Add")]
                okf = len(lens) == 1 and len(pushes) == 1 and len(adds) == 1
            elif owner.qname.endswith("WireFormat>::parse") and what.startswith("constructs"):
                an = ctx.whole.results.get(b.id)
                okf = False
                if an is not None:
                    for bi2, st2, v2 in an.ok_points:
                        if v2 is not None and v2[0] == "adt" and v2[2] == "Ok" and v2[3] and v2[3][0] is not None and v2[3][0][0] == "adt":
                            inner = v2[3][0]
                            fm = dict(zip(inner[4], inner[3]))
                            sz = fm.get("size")
                            cur_ = st2.store.get("(*_2)")
                            if sz is not None and sz[0] == "lin" and cur_ is not None and cur_[0] == "lin" and \
                                    sz[1] == cur_[1] - Lin.sym("(*_2)@entry"):
                                okf = True
            if okf:
                report.nontriv("txt-size:" + b.qname)
            else:
                viol(report, rule, b, "txt-size-cache", "%s %s, but not in the form that keeps the cached length right (%s)" % (
                    b.qname, what, ALLOWED[owner.qname]), what)
    report.floor("sites that maintain TXT's cached length", n, 4)


def packet_emission_order(ctx, b):
    """(callee, element type, iterated collection or None) for every nested write of a packet writer, in block order;
    `for e in &self.f { e.write(..)? }` and `self.f.iter().try_for_each(|e| e.write(..))` (also over a chain) read alike"""
    prog = ctx.prog
    a2 = ctx.whole.results[b.id]
    lps, irr, dom = loops.natural_loops(b)
    order = []
    by_bi = {}
    for e in a2.emits:
        if e["kind"] == "nested":
            by_bi.setdefault(e["bi"], e)
    defs = mu.defs_of(b)
    for bi in a2.rpo():
        bl = b.blocks[bi]
        if bl["cleanup"]:
            continue
        t = bl["term"]
        if t["t"] == "call" and t["callee"] and t["callee"]["def"] in ("std::iter::Iterator::try_for_each", "std::iter::Iterator::for_each") \
                and len(t["args"]) == 2:
            cl = mu.single_def(defs, mu.op_local(t["args"][1]))
            cb = prog.bodies.get(cl[2]["def"]) if cl is not None and cl[1] != "term" and cl[2].get("ak") == "closure" else None
            srcs = _iter_sources(b, defs, t["args"][0])
            writes = []
            if cb is not None:
                for _, wt in mu.calls(cb, r"::(write_to|write_compressed_to)$"):
                    im = wt["callee"].get("impl") or {}
                    ty = (im.get("self") or "").split("::")[-1].split("<")[0]
                    writes.append((wt["callee"]["name"], ty))
            if cb is None or srcs is None or len(writes) != 1:
                order.append(("?", "closure at bb%d" % bi, None))
            else:
                for sname in srcs:
                    order.append((writes[0][0], writes[0][1], sname))
            continue
        e = by_bi.get(bi)
        if e is None:
            continue
        src = None
        chained = None
        for h, info in lps.items():
            if e["bi"] in info["body"]:
                nodes = [n for n in a2.join_info if n[0] == h]
                src = layout.loop_source(a2, nodes[0]) if nodes else "?"
                # `for e in self.a.iter().chain(&self.b)`: the loop walks both collections, in that order
                ht = b.blocks[h]["term"]
                if ht["t"] == "call" and ht.get("callee") and ht["callee"]["name"] == "next" and "Chain<" in (ht["callee"].get("full") or "") \
                        and ht["args"] and mu.op_local(ht["args"][0]) is not None:
                    root = mu.ref_root(b, defs, mu.op_local(ht["args"][0]))
                    if root is not None:
                        chained = _iter_sources(b, defs, {"o": "move", "pl": {"l": root, "p": []}})
        if chained and len(chained) > 1:
            for sname in chained:
                order.append((e["fn"], e["type"], sname))
            continue
        ty = e["type"]
        if ty is None and src and src.startswith("(*_1)."):
            # written through a generic helper (`write_section<E: WireFormat>`): the element type is that of the collection
            adt = prog.adts.get("simple_dns::dns::packet::Packet")
            fld = [f for f in (adt["variants"][0]["fields"] if adt else []) if f["name"] == src.split(".")[-1]]
            if fld:
                m = re.search(r"Vec<(?:[\w:]+::)?(\w+)", prog.types["simple_dns"][fld[0]["t"]]["s"])
                if m:
                    ty = m.group(1)
        order.append((e["fn"], ty, src))
    return order


def run(ctx):
    prog, W = ctx.prog, ctx.whole
    report = Report("C04", ctx, "R1 for every WireFormat impl the symbolic byte count of write_to (exact writer-position tracking, loops as "
                    "per-element sums, enum matches per variant) equals the value of len(); R2 the four header counts are the lengths "
                    "of the vectors written, in order, plus one for the OPT record which is written iff header.opt is Some; R3 the "
                    "Vec-returning entry points only wrap the writer entry points; R4 no Result of a writer call is dropped; R5 no "
                    "panic site is reachable from the serialisation entry points; R6 after back-patching RDLENGTH the writer is "
                    "re-positioned at the captured end position.")
    B = {}
    for name, q in [("write_to", "simple_dns::Packet::write_to"), ("write_c", "simple_dns::Packet::write_compressed_to"),
                    ("bbv", "simple_dns::Packet::build_bytes_vec"), ("bbvc", "simple_dns::Packet::build_bytes_vec_compressed"),
                    ("write_header", "simple_dns::Packet::write_header"), ("hdr_write", "simple_dns::Header::write_to"),
                    ("rr_write", "simple_dns::<ResourceRecord as WireFormat>::write_to"),
                    ("rr_writec", "simple_dns::<ResourceRecord as WireFormat>::write_compressed_to")]:
        B[name] = ctx.must_find(report, q)
    if any(v is None for v in B.values()):
        return report.finish()
    # ---- R1
    len_vs_write(ctx, report)
    txt_size_cache(ctx, report)
    # RDLENGTH in the uncompressed writer is rdata.len()
    an = W.results[B["rr_write"].id]
    emits = an.emits
    report.count()
    okr = False
    for i, e in enumerate(emits):
        if e["kind"] == "bytes" and e["src"][0] == "int" and e["src"][2] == 2 and e["src"][1] == "BE":
            nxt = emits[i + 1] if i + 1 < len(emits) else None
            if nxt is not None and nxt["kind"] == "nested" and nxt["recv"].endswith(".rdata") and nxt["type"] == "RData":
                # the integer written is (rdata.len() as u16)
                ev = [x for x in an.events if x.get("callee") and x["callee"]["name"] == "len" and x["bi"] < e["bi"]]
                if ev and ev[-1]["vals"] and ev[-1]["vals"][0] and ev[-1]["vals"][0][1].endswith(".rdata"):
                    okr = True
    if okr:
        report.nontriv("rdlength source")
    else:
        viol(report, "C04-R1", B["rr_write"], "rdlength", "ResourceRecord::write_to does not write `self.rdata.len() as u16` immediately before the RDATA")
    # ---- R2 counts
    anh = W.results[B["write_header"].id]
    hcalls = [e for e in anh.events if e.get("callee") and e["callee"]["def"].endswith("Header::<'a>::write_to")]
    report.count()
    want = ["(*_1).questions", "(*_1).answers", "(*_1).name_servers", "(*_1).additional_records"]
    if len(hcalls) != 1:
        viol(report, "C04-R2", B["write_header"], "counts", "write_header does not call Header::write_to exactly once")
    else:
        vals = hcalls[0]["vals"][2:6]
        got = []
        for v in vals:
            g = None
            if v is not None and v[0] == "lin":
                e = v[1]
                # undo the `as u16` truncation and split off the `+ opt.is_some()` term
                parts = []
                for s, k in e.t:
                    d = anh.derived.get(s)
                    parts.append((d if d is not None else Lin.sym(s), k))
                g = parts
            got.append(g)
        ok = True
        for i, (w, g) in enumerate(zip(want, got)):
            lens = [repr(p[0]) for p in (g or []) if repr(p[0]).startswith("len(")]
            if lens != ["len(%s)" % w]:
                ok = False
                viol(report, "C04-R2", B["write_header"], "counts", "header count #%d is %s, expected the length of %s" % (
                    i + 1, [repr(p[0]) for p in (g or [])], w.split(".")[-1]), w)
        if ok:
            extra = [repr(p[0]) for p in got[3] if not repr(p[0]).startswith("len(")]
            if len(extra) != 1:
                viol(report, "C04-R2", B["write_header"], "counts", "ARCOUNT is not additional_records.len() + (opt present as 0/1): %s" % extra)
            else:
                report.nontriv("header counts")
                report.sample({"rule": "R2", "counts": want, "arcount_extra": "From<bool>(header.opt.is_some())"})
    # both packet writers: header, then questions, answers, name_servers, [opt], additional
    for wn in ("write_to", "write_c"):
        b = B[wn]
        order = packet_emission_order(ctx, b)
        report.count()
        compact = [(fn, t, s) for fn, t, s in order]
        exp_fn = "write_compressed_to" if wn == "write_c" else "write_to"
        expect = [("write_header", "Packet", None), (exp_fn, "Question", "(*_1).questions"), (exp_fn, "ResourceRecord", "(*_1).answers"),
                  (exp_fn, "ResourceRecord", "(*_1).name_servers"), ("write_to", "ResourceRecord", None),
                  (exp_fn, "ResourceRecord", "(*_1).additional_records")]
        if compact == expect:
            report.nontriv("order:" + wn)
            report.sample({"writer": b.qname, "emission_order": [s or t for fn, t, s in compact]})
        else:
            viol(report, "C04-R2", b, "section-order", "%s emits %s; expected header, questions, answers, name_servers, OPT, "
                 "additional_records each iterated once with %s" % (b.qname, compact, exp_fn))
    # header fields in order: id, flags, four counts
    ah = W.results[B["hdr_write"].id]
    srcs = [e["src"] for e in ah.emits if e["kind"] == "bytes"]
    report.count()
    shape = [(s[0], s[1], s[2], s[3][1] if s[0] == "int" and s[3] else None) for s in srcs]
    exp = [("int", "BE", 2, "(*_1).id"), ("int", "BE", 2, None), ("int", "BE", 2, "_3"), ("int", "BE", 2, "_4"), ("int", "BE", 2, "_5"),
           ("int", "BE", 2, "_6")]
    okh = len(shape) == 6 and all(s[:3] == e[:3] and (e[3] is None or s[3] == e[3]) for s, e in zip(shape, exp))
    gf = [e for e in ah.events if e.get("callee") and e["callee"]["name"] == "get_flags"]
    if okh and len(gf) == 1:
        report.nontriv("header emission")
    else:
        viol(report, "C04-R2", B["hdr_write"], "header-order", "Header::write_to does not emit id, flags, QDCOUNT, ANCOUNT, NSCOUNT, ARCOUNT as "
             "six big-endian u16 in that order (%s)" % shape)
    # ---- R3 single implementation
    for vn, wn in (("bbv", "write_to"), ("bbvc", "write_c")):
        b = B[vn]
        # in control-flow order (a writer closure inlined back sits in later blocks than the call it is passed to)
        rpo_pos = {bi: i for i, bi in enumerate(W.results[b.id].rpo())} if b.id in W.results else {}
        names = [t["callee"]["def"] for bi, t in sorted(mu.calls(b, r"."), key=lambda e: rpo_pos.get(e[0], 1 << 20))
                 if not t["callee"]["def"].startswith(("<std::result", "std::result"))]
        names = [n for n in names if "Try>::branch" not in n and "from_residual" not in n]
        report.count()
        exp = ["std::vec::Vec::<T>::with_capacity", "std::io::Cursor::<T>::new", B[wn].j["def"].replace("simple_dns::", "simple_dns::", 1),
               "std::io::Cursor::<T>::into_inner"]
        short = [n.split("::")[-1] for n in names]
        if short == ["with_capacity", "new", B[wn].name, "into_inner"]:
            report.nontriv("wrapper:" + vn)
        else:
            viol(report, "C04-R3", b, "wrapper", "%s is no longer `Cursor::new(Vec) -> %s -> into_inner` (calls: %s)" % (b.qname, B[wn].name, short))
    # ---- R4 error discipline over the writer graph
    roots = [B["write_to"], B["write_c"], B["bbv"], B["bbvc"]]
    reach = ctx.cg.reachable([r.id for r in roots])
    n_res = 0
    for bid in sorted(reach):
        b = prog.bodies[bid]
        if b.crate != "simple_dns" or b.kind == "Promoted":
            continue
        used = set()
        for bl in b.blocks:
            if bl["cleanup"]:
                continue
            for s in bl["stmts"]:
                if s["s"] == "assign":
                    for op in _ops(s["rv"]):
                        if op["o"] in ("copy", "move"):
                            used.add(op["pl"]["l"])
                    if s["rv"]["k"] in ("ref", "discr"):
                        used.add(s["rv"]["pl"]["l"])
            t = bl["term"]
            if t["t"] == "call":
                for a in t["args"]:
                    if a["o"] in ("copy", "move"):
                        used.add(a["pl"]["l"])
            elif t["t"] == "switch" and t["discr"]["o"] in ("copy", "move"):
                used.add(t["discr"]["pl"]["l"])
        for bi, bl in enumerate(b.blocks):
            t = bl["term"]
            if bl["cleanup"] or t["t"] != "call" or t["dest"]["p"]:
                continue
            dt = b.ty(t["dest"]["t"])
            if dt["k"] == "adt" and dt["name"].endswith("::Result"):
                n_res += 1
                report.count()
                if t["dest"]["l"] != 0 and t["dest"]["l"] not in used:
                    viol(report, "C04-R4", b, "dropped-result", "the Result of `%s` in %s is never inspected: a failed write would be "
                         "silently ignored" % (t["sp"].get("sn") or t["callee"]["def"], b.qname), t["sp"].get("sn") or "")
    report.floor("Result-producing calls in the writer graph", n_res, 300)
    report.nontriv("error discipline")
    # ---- R5 no panic
    panicrule.check_panics(ctx, report, roots, "C04-R5", "C04", skip_kinds=("call:alloc",))
    # ---- R6 position discipline of the RDLENGTH back-patch
    b = B["rr_writec"]
    a6 = W.results[b.id]
    seeks = [e for e in a6.events if e.get("callee") and e["callee"]["def"] == "std::io::Seek::seek"]
    sps = [e for e in a6.events if e.get("callee") and e["callee"]["def"] == "std::io::Seek::stream_position"]
    report.count()
    if len(seeks) != 2 or len(sps) != 2:
        viol(report, "C04-R6", b, "backpatch-shape", "expected two stream_position and two seek calls around the RDLENGTH back-patch (got %d / %d)" % (len(sps), len(seeks)))
    else:
        pos1, pos2 = sps[0]["writer"][1], sps[1]["writer"][1]
        s1, s2 = seeks[0].get("seek"), seeks[1].get("seek")
        ok1 = s1 and s1[0] == "Start" and s1[1] is not None and s1[1][0] == "lin" and s1[1][1] == pos1
        ok2 = s2 and s2[0] == "Start" and s2[1] is not None and s2[1][0] == "lin" and s2[1][1] == pos2
        if not ok1:
            viol(report, "C04-R6", b, "backpatch-seek", "the first seek does not go to the position captured before the RDLENGTH placeholder")
        if not ok2:
            viol(report, "C04-R6", b, "restore-seek",
                 "after patching RDLENGTH the writer is re-positioned with %s instead of SeekFrom::Start(<position captured after the "
                 "RDATA>): on a writer with pre-existing content beyond the message (e.g. a Cursor over a pre-filled Vec) the next "
                 "record is written after that content" % (("SeekFrom::%s" % s2[0]) if s2 else "an unknown seek"), "seek#2")
        if ok1 and ok2:
            report.nontriv("backpatch")
            report.sample({"rule": "R6", "patched_length": "end - len_position - 2", "restore": "SeekFrom::Start(end)"})
        # the patched value is end - len_position - 2
        pe = [e for e in a6.emits if e["kind"] == "bytes" and e["src"][0] == "int"]
        report.count()
    report.assumptions += ["A-SEEK: a writer's stream position advances by the number of bytes written and seek(Start(p)) moves it to p",
                           "A-OVF", "byte equality of the two entry points for arbitrary Write implementations beyond R3/R6 is not decided"]
    return report.finish()


def _ops(rv):
    k = rv["k"]
    if k in ("use", "cast", "repeat"):
        return [rv["op"]]
    if k == "bin":
        return [rv["a"], rv["b"]]
    if k == "un":
        return [rv["a"]]
    if k == "agg":
        return rv["ops"]
    return []
