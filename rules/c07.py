"""C07 Emitted compression pointers are valid and used where allowed."""
from common import Report, Violation, load_tsv
from lin import Lin, entails
import compress
import layout
import mirutil as mu
import loops


def viol(report, rule, what, kind, msg, where="-"):
    report.violate(Violation(report.key(what, rule, kind, ""), where, rule, "%s: %s" % (rule, msg)))


def run(ctx):
    prog, W = ctx.prog, ctx.whole
    report = Report("C07", ctx, "R1 by call-graph reachability and by the emit sequence of each write_compressed_to: the names the property "
                    "lists as compressible reach Name::compress_append, the names whose RFCs forbid compression never do; R2 recorded "
                    "offsets are <= 0x3FFF (C03-R3) and the pointer is `offset | 0xC000` written big-endian; R5 a suffix is left out of the table only when its offset is >= 0x4000; R3 the offset stored for a "
                    "suffix is the writer position captured before any byte of that label is written, keyed by the suffix starting at "
                    "that label; R4 offsets are relative to the first byte of the message; R6 the table of names already written is created once "
                    "per message (not per section or per record).")
    rows = load_tsv("compression.tsv")
    seqs = compress.compressed_sequences(ctx)
    ca = ctx.must_find(report, "simple_dns::Name::compress_append")
    pw = ctx.must_find(report, "simple_dns::Packet::write_compressed_to")
    if ca is None or pw is None:
        return report.finish()
    wc = {b.impl["self_s"].split("::")[-1].split("<")[0]: b for b in prog.method_bodies("wire_format::WireFormat", "write_compressed_to")}
    dflt = prog.find("simple_dns::dns::wire_format::WireFormat::write_compressed_to")
    for kind, tn, field in rows:
        report.count()
        plain, comp, b, cb = seqs.get(tn, (None, None, None, None))
        if plain is None:
            report.lost_anchor("writer of %s" % tn)
            continue
        # reachability: does <T>::write_compressed_to reach compress_append at all?
        root = cb if cb is not None else dflt
        reach = ctx.cg.reachable([root.id]) if cb is not None else {}
        reaches = ca.id in reach
        # item-level: the named field in the compressed emit sequence
        item = None
        if comp is not None:
            for x in comp:
                if x.lstrip("~").startswith(("name", "sub:")) and (x.endswith(":" + field) or (field == "0" and ":" not in x.lstrip("~")) or
                                                                  x.lstrip("~") in ("name:" + field,)):
                    item = x
            if item is None:
                names = [x for x in comp if x.lstrip("~").startswith("name") or x.lstrip("~").startswith("sub:")]
                if len(names) == 1:
                    item = names[0]
        compressed = bool(item and item.startswith("~")) and reaches
        if kind == "must":
            if compressed:
                report.nontriv("must:%s.%s" % (tn, field))
            else:
                viol(report, "C07-R1", "%s.%s" % (tn, field), "not-compressed", "%s.%s is an RFC 1035 name that must be written through the "
                     "compressing writer, but write_compressed_to %s" % (tn, field, "is not overridden (falls back to plain writing)" if cb is None
                                                                          else "emits [%s]" % " ".join(comp)), "%s:%d" % (b.file, b.line))
        else:
            if cb is None or not reaches:
                report.nontriv("mustnot:%s.%s" % (tn, field))
            else:
                viol(report, "C07-R1", "%s.%s" % (tn, field), "compressed", "%s.%s must be written in full (its RFC forbids compression) but "
                     "%s::write_compressed_to reaches Name::compress_append (emits [%s])" % (tn, field, tn, " ".join(comp or [])),
                     "%s:%d" % (cb.file, cb.line))
    report.floor("compression table rows", len(rows), 23)
    report.sample({"rule": "R1", "must_compress": sorted(set(r[1] for r in rows if r[0] == "must")),
                   "must_not": sorted(set(r[1] for r in rows if r[0] == "mustnot"))})
    # ---- R2 pointer form
    aca = W.results[ca.id]
    ptr = [e for e in aca.emits if e["kind"] == "bytes" and e["src"][0] == "int" and e["src"][2] == 2]
    report.count()
    ors = []
    for bl in ca.blocks:
        for s in bl["stmts"]:
            if s["s"] == "assign" and s["rv"]["k"] == "bin" and s["rv"]["op"] == "BitOr":
                for side in ("a", "b"):
                    o = s["rv"][side]
                    if o["o"] == "const" and o["k"]["c"] == "int":
                        ors.append(int(o["k"]["v"]))
    if len(ptr) == 1 and ptr[0]["src"][1] == "BE" and ors == [0xC000]:
        report.nontriv("pointer form")
    else:
        viol(report, "C07-R2", "Name::compress_append", "pointer-form", "the pointer is not written as one big-endian u16 of `offset | 0xC000` "
             "(or-constants %s, 2-byte writes %d)" % ([hex(x) for x in ors], len(ptr)), "%s:%d" % (ca.file, ca.line))
    import compress as _compress
    tins = _compress.table_insertions(aca)
    ins = [x[0] for x in tins]
    report.count()
    if len(ins) == 1:
        st = ins[0]["st"]
        val = tins[0][1]
        wide = aca.derived.get(val.t[0][0]) if (val is not None and len(val.t) == 1 and val.t[0][0] in aca.derived) else val
        if any(c is not None and entails(st.facts, aca.iv, c - 0x3FFF, aca.depth) for c in (val, wide)):
            report.nontriv("14-bit")
        else:
            viol(report, "C07-R2", "Name::compress_append", "offset-bound", "recorded offsets are not bounded by 16383: a pointer to a later "
                 "offset is truncated to a different target", "%s:%d" % (ca.file, ca.line))
        # ---- R5 used where allowed: a suffix is left out of the table only when its offset does not fit 14 bits
        import mirutil as mu2
        domc = mu2.dominators(ca)
        ibi = ins[0]["bi"]
        sw = None
        for D in sorted(domc[ibi], key=lambda x: -len(domc[x])):
            t = ca.blocks[D]["term"]
            if D != ibi and t["t"] == "switch":
                succs = [tg for _, tg in t["arms"]] + [t["otherwise"]]
                taken = [x for x in succs if x in domc[ibi]]
                skipped = [x for x in succs if x not in domc[ibi]]
                # only a branch on a comparison is a bound test (the `?` of stream_position and the Occupied / Vacant dispatch
                # branch on discriminants)
                dl = mu2.op_local(t["discr"])
                dd = mu2.single_def(mu2.defs_of(ca), dl) if dl is not None else None
                if not (dd is not None and dd[1] != "term" and dd[2].get("k") == "bin" and dd[2].get("op") in ("Lt", "Le", "Gt", "Ge", "Eq", "Ne")):
                    continue
                if taken and skipped:
                    sw = (D, skipped)
                    break
        report.count()
        if sw is not None and wide is not None:
            okskip = True
            nskip = 0
            for T in sw[1]:
                for n in [n for n in aca.entry if n[0] == T]:
                    nskip += 1
                    if not any(c is not None and entails(aca.entry[n].facts, aca.iv, Lin.const(0x4000) - c, aca.depth) for c in (val, wide)):
                        okskip = False
            # the guard may also be the Occupied/Vacant dispatch itself (no bound test at all): then R2 decides
            disc = ca.blocks[sw[0]]["term"]["discr"]
            if okskip and nskip:
                report.nontriv("skip only beyond 14 bits")
                report.sample({"rule": "R5", "entailed": "a suffix is not recorded only if its offset >= 0x4000"})
            elif nskip:
                viol(report, "C07-R5", "Name::compress_append", "under-recording", "a name suffix can be left out of the compression table although "
                     "its offset (%s) fits a 14-bit pointer: later occurrences are written in full where compression is allowed "
                     "(the skip branch does not imply offset >= 0x4000)" % (wide,), "%s:%d" % (ca.file, ca.line))
        # ---- R3 record-before-write: the recorded value is the writer position at the start of this label
        lps, irr, dom = loops.natural_loops(ca)
        okr = False
        why = ""
        if len(lps) == 1 and wide is not None:
            h = list(lps)[0]
            heads = [n for n in aca.join_info if n[0] == h]
            phis = aca.join_info[heads[0]][0] if heads else {}
            wphi = phis.get("wpos:(*_2)")
            if wphi is not None and wide == Lin.sym(wphi[0]):
                okr = True
            else:
                why = "recorded %s, position at the start of the label is %s" % (wide, wphi[0] if wphi else "?")
        # key = suffix starting at the current label
        keyok = False
        kv = tins[0][2]
        if kv is not None and kv[0] == "slice":
            sid = kv[1]
            sl = [s for s in aca.slices if s["sid"] == sid]
            if sl and sl[0]["kind"] == "rangefrom" and sl[0]["root"].endswith(".labels") and len(sl[0]["off"].t) == 1 and \
                    sl[0]["off"].c == 0 and sl[0]["off"].t[0][1] == 1 and sl[0]["off"].t[0][0].startswith(("en", "it")):
                # the loop index: the counter of enumerate() or the item of a 0..len range
                keyok = True
        report.count()
        if okr and keyok:
            report.nontriv("record-before-write")
            report.sample({"rule": "R3", "recorded": "writer position at the start of the label", "key": "&self.labels[i..] with i the loop index"})
        else:
            viol(report, "C07-R3", "Name::compress_append", "record-before-write", "the table entry for a suffix is not (position before the label's "
                 "first byte, suffix starting at that label): %s%s" % (why, "" if keyok else "; key is not &self.labels[i..]"),
                 "%s:%d" % (ca.file, ca.line))
    else:
        viol(report, "C07-R3", "Name::compress_append", "insert", "expected exactly one table insertion")
    # ---- R4 message origin
    apw = W.results[pw.id]
    sp = [e for e in apw.events if e.get("callee") and e["callee"]["def"] == "std::io::Seek::stream_position"]
    report.count()
    if not sp:
        viol(report, "C07-R4", "Packet::write_compressed_to", "message-origin",
             "no message origin is captured: the offsets recorded by compress_append are absolute stream positions, which are offsets from the "
             "first byte of the DNS message only if the writer starts at position 0 (failing case: a Cursor positioned after a 2-byte TCP "
             "length prefix yields pointers that are 2 too large)", "%s:%d" % (pw.file, pw.line))
    else:
        report.nontriv("origin captured")
    report.assumptions += ["A-SEEK", "`expands to the intended name` beyond R3 is not decided (value-level)"]
    # R6: "a repeated name is written as a pointer" needs the names written earlier in the message: one table per message
    import c03
    c03.one_table(ctx, report, pw, "C07-R6")
    return report.finish()
