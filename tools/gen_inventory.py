#!/usr/bin/env python3
"""gen_inventory.py - write tables/functions.tsv: the functions of the reference tree (/repo HEAD, all features).
Functions that are not listed are treated as transparent helpers (rules/inline.py).  Run only when the reference tree changes
(a `fix:` commit that adds a function) and commit the result."""
import os
import sys
sys.path.insert(0, "/verif/rules")
os.environ["SDLINT_NO_INLINE"] = "1"
import facts
fdir, sha, _ = facts.build_facts("all")
prog = facts.Program(fdir)
import inline
import callgraph
cg = callgraph.CallGraph(prog)
callers = {}
for x, outs in cg.edges.items():
    bx = prog.bodies[x]
    top = prog.bodies.get(bx.root, bx) if bx.kind == "Closure" else bx
    for (y, bi, why) in outs:
        if why in ("cha", "bound") or y == top.id:
            continue
        by = prog.bodies[y]
        if by.crate in ("simple_dns", "simple_mdns") and top.crate in ("simple_dns", "simple_mdns"):
            callers.setdefault(by.qname, set()).add(top.qname)
rows = sorted(set("%s\t%s\t%s" % (b.qname, inline.signature(b), ";".join(sorted(callers.get(b.qname, ()))))
                  for b in prog.bodies.values() if b.crate in ("simple_dns", "simple_mdns") and b.kind in ("Fn", "AssocFn")))
with open("/verif/tables/functions.tsv", "w") as fh:
    fh.write("# qname <tab> signature (types of the parameters -> return type) <tab> direct callers, of every function of the reference tree (facts %s);\n"
             "# a function that is not listed is a transparent helper, unless it is the only new function with the signature of a\n"
             "# listed function that has disappeared from the same crate (then it is that function, renamed)\n" % sha[:12])
    for r in rows:
        fh.write(r + "\n")
print(len(rows), "functions")
