#!/bin/bash
# try_seed.sh <scratch worktree> <seed-name> <check...> : apply a seeded change to a scratch worktree (never /repo) and run checks on it
wt=$1; n=$2; shift 2
[ "$wt" = "/repo" ] && { echo "refusing to patch /repo"; exit 2; }
(cd $wt && git checkout -q -- . && git apply /verif/seeded/$n/patch.diff) || exit 2
echo "== $n"
for c in "$@"; do
  SDLINT_REPO=$wt SDLINT_EVIDENCE=/tmp/devev /verif/check $c 2>&1 | grep -A1 "^VIOLATION" | grep -v "^VIOL\|^--" | cut -c1-280 | head -3
done
git -C $wt checkout -q -- .
