#!/usr/bin/env python3
"""run_targeted.py <neutral|seeded> <C..,C..> [--jobs N] : after a change to the rule modules of a few checks, re-run only those
checks over a corpus, on the patches they can be affected by, and merge the outcome into <corpus>/RESULTS.json (entries of the other
checks are kept as they were).  neutral: a patch is selected for a check when it touches a file that check's changed rules look at
(table below); seeded: a seed is selected for a check when that check reported it before, or is the seed's own property.
Scratch worktrees under /tmp, removed afterwards; nothing is applied to /repo."""
import json
import os
import re
import subprocess
import sys
import threading

corpus, only = sys.argv[1], sys.argv[2].split(",")
jobs = int(sys.argv[sys.argv.index("--jobs") + 1]) if "--jobs" in sys.argv else 14
ROOT = "/verif/" + corpus
resp = os.path.join(ROOT, "RESULTS.json")
results = json.load(open(resp))
lock = threading.Lock()
# which source files can change the verdict of which check's *changed* rules (run of 2026-09-27: class word of the OPT record, one
# compression table per message, chained section loops, dispatch arms of parse_rdata, subdomain predicate, into_owned reordering)
TOUCH = {"C02": r"resource_record\.rs|question\.rs", "C09": r"resource_record\.rs|packet\.rs", "C11": r"resource_record\.rs|packet\.rs|rdata/mod\.rs|rdata/macros\.rs",
         "C03": r"packet\.rs|HashMap", "C07": r"packet\.rs|HashMap", "C04": r"packet\.rs", "C18": r"rdata/mod\.rs|rdata/macros\.rs",
         "C15": r"dns/name\.rs", "C16": r"into_owned"}


def sh(cmd):
    return subprocess.run(cmd, shell=True, stdout=subprocess.PIPE, stderr=subprocess.STDOUT, text=True)


work = []
for n in sorted(os.listdir(ROOT)):
    pf = os.path.join(ROOT, n, "patch.diff")
    if not os.path.exists(pf):
        continue
    diff = open(pf).read()
    if corpus == "neutral":
        cs = [c for c in only if re.search(TOUCH.get(c, r"."), diff)]
    else:
        prev = results.get(n, {})
        meta = json.load(open(os.path.join(ROOT, n, "meta.json")))
        cs = [c for c in only if c in prev.get("fired", {}) or c == meta["property"] or n not in results]
    if cs:
        work.append((n, cs))
print("%d patches selected" % len(work), flush=True)


def run_one(n, cs, tree, evdir):
    sh("git -C %s checkout -- ." % tree)
    r = sh("git -C %s apply %s" % (tree, os.path.join(ROOT, n, "patch.diff")))
    if r.returncode != 0:
        return None
    try:
        env = dict(os.environ, SDLINT_EVIDENCE=evdir, SDLINT_REPO=tree, SDLINT_ONLY=",".join(cs))
        r = subprocess.run(["/verif/check", "all"], cwd="/verif", env=env, stdout=subprocess.PIPE, stderr=subprocess.STDOUT, text=True)
        fired, cur, seen = {}, [], []
        for l in r.stdout.splitlines():
            if l.startswith("   "):
                cur.append(l.strip()[:300])
            elif l.startswith("RESULT "):
                p = l.split()[1]
                rc = int(l.split("exit=")[1])
                seen.append(p)
                if rc != 0:
                    fired[p] = {"exit": rc, "reports": cur[:3]}
                cur = []
        if sorted(seen) != sorted(cs):
            fired["infrastructure"] = {"exit": r.returncode, "reports": [r.stdout[-400:]]}
        return fired
    finally:
        sh("git -C %s checkout -- ." % tree)


def worker(i):
    tree = "/tmp/sdlint-tw%d" % i
    sh("git -C /repo worktree remove --force %s" % tree)
    sh("git -C /repo worktree add -q --detach %s HEAD" % tree)
    try:
        while True:
            with lock:
                if not work:
                    break
                n, cs = work.pop(0)
            fired = run_one(n, cs, tree, "/tmp/sdlint-targeted-ev%d" % i)
            if fired is None:
                print(n, "does not apply", flush=True)
                continue
            with lock:
                key = "false_alarms" if corpus == "neutral" else "fired"
                e = results.setdefault(n, {"applied": True, key: {}})
                old = e.get(key, {})
                merged = {k: v for k, v in old.items() if k not in cs and k != "infrastructure"}
                merged.update(fired)
                e[key] = merged
                if corpus == "seeded":
                    meta = json.load(open(os.path.join(ROOT, n, "meta.json")))
                    e["property"] = meta["property"]
                    e["detected_by_own_check"] = meta["property"] in merged
                lost = [k for k in old if k in cs and k not in fired]
                print(n, cs, "->", {k: v["exit"] for k, v in fired.items()} or "silent", ("LOST " + ",".join(lost)) if lost else "", flush=True)
                json.dump(results, open(resp, "w"), indent=1)
    finally:
        sh("git -C /repo worktree remove --force %s; rm -rf /tmp/sdlint-targeted-ev%d" % (tree, i))


ts = [threading.Thread(target=worker, args=(i,)) for i in range(jobs)]
for t in ts:
    t.start()
for t in ts:
    t.join()
sh("git -C /repo worktree prune")
if corpus == "neutral":
    bad = sorted(k for k, v in results.items() if v.get("false_alarms"))
    print("%d refactorings, with a false alarm: %s" % (len(results), bad))
else:
    bad = sorted(k for k, v in results.items() if v.get("applied") and not v.get("fired"))
    print("%d seeded changes, not detected: %s" % (len(results), bad))
