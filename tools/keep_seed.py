#!/usr/bin/env python3
"""keep_seed.py <worktree> <k> <prop> <seed-name>
Confirms a sub-agent's seeded change in its scratch worktree (suite passes with the change, demo fails with it and passes
without it) and stores it under /verif/seeded/<seed-name>/ .  Nothing is applied to /repo here."""
import json
import os
import re
import shutil
import subprocess
import sys

wt, k, prop, name = sys.argv[1:5]
seed = os.path.join(wt, "SEED", k)
patch = os.path.join(seed, "patch.diff")
demo = os.path.join(seed, "demo.rs")
meta_txt = open(os.path.join(seed, "meta.txt")).read() if os.path.exists(os.path.join(seed, "meta.txt")) else ""


def sh(cmd, **kw):
    return subprocess.run(cmd, shell=True, cwd=wt, stdout=subprocess.PIPE, stderr=subprocess.STDOUT, text=True, **kw)


sh("git checkout -- . && git clean -fdq -e SEED -e target")
dsrc = open(demo).read()
crate = "simple-mdns" if "simple_mdns" in dsrc else "simple-dns"
tname = "seed_demo_%s" % k
dpath = os.path.join(wt, crate, "tests", tname + ".rs")
features = " --all-features" if crate == "simple-mdns" else ""
ran = []
# 1. change applied: suite passes
r = sh("git apply %s" % patch)
if r.returncode != 0:
    print("PATCH DOES NOT APPLY", r.stdout)
    sys.exit(1)
r = sh("cargo test --workspace --offline 2>&1 | grep -E '^test result|FAILED|error' ", timeout=1800)
suite_ok = "FAILED" not in r.stdout and "error" not in r.stdout and "test result: ok" in r.stdout
ran.append("with change: cargo test --workspace --offline -> %s" % ("all pass" if suite_ok else "FAIL: " + r.stdout[-300:]))
# 2. demo fails with the change
shutil.copy(demo, dpath)
r = sh("timeout 600 cargo test -p %s --offline%s --test %s 2>&1 | tail -30" % (crate, features, tname))
demo_fails = ("test result: FAILED" in r.stdout) or ("panicked" in r.stdout and "test result: ok" not in r.stdout)
ran.append("with change: cargo test -p %s --test %s -> %s" % (crate, tname, "FAILS (expected)" if demo_fails else "passes?! " + r.stdout[-300:]))
# 3. demo passes without the change
sh("git checkout -- .")
r = sh("timeout 600 cargo test -p %s --offline%s --test %s 2>&1 | tail -30" % (crate, features, tname))
demo_passes = "test result: ok" in r.stdout and "FAILED" not in r.stdout
ran.append("clean tree: cargo test -p %s --test %s -> %s" % (crate, tname, "passes (expected)" if demo_passes else "FAIL: " + r.stdout[-300:]))
os.unlink(dpath)
print("\n".join(ran))
if not (suite_ok and demo_fails and demo_passes):
    print("NOT KEPT")
    sys.exit(1)
out = os.path.join("/verif/seeded", name)
os.makedirs(out, exist_ok=True)
shutil.copy(patch, os.path.join(out, "patch.diff"))
shutil.copy(demo, os.path.join(out, "demo.rs"))
files = re.findall(r"^\+\+\+ b/(.*)$", open(patch).read(), re.M)
json.dump({"property": prop, "breaks": meta_txt.strip()[:1500], "files": files,
           "demo_path": "%s/tests/%s.rs" % (crate, tname),
           "demo_cmd": "cargo test -p %s --offline%s --test %s" % (crate, features, tname),
           "confirmed": ran, "source": "independent sub-agent given only the property text and a scratch worktree"},
          open(os.path.join(out, "meta.json"), "w"), indent=1)
print("KEPT", out)
