#!/usr/bin/env python3
"""keep_seed.py <worktree> <k> <prop> <seed-name>
Confirms a sub-agent's seeded change in its scratch worktree (suite passes with the change, demo fails with it and passes
without it) and stores it under /verif/seeded/<seed-name>/ .  Nothing is applied to /repo here."""
import json
import os
import re
import shutil
import subprocess
import sys

wt, k, prop, name = sys.argv[1:5]
seed = os.path.join(wt, "SEED", k)
patch = os.path.join(seed, "patch.diff")
demo = os.path.join(seed, "demo.rs")
meta_txt = open(os.path.join(seed, "meta.txt")).read() if os.path.exists(os.path.join(seed, "meta.txt")) else ""


def sh(cmd, **kw):
    return subprocess.run(cmd, shell=True, cwd=wt, stdout=subprocess.PIPE, stderr=subprocess.STDOUT, text=True, **kw)


sh("git checkout -- . && git clean -fdq -e SEED -e target")
dsrc = open(demo).read()
crate = "simple-mdns" if ("simple_mdns" in dsrc or "simple-mdns/tests/seed_demo_%s" % k in meta_txt) else "simple-dns"
tname = "seed_demo_%s" % k
unit = bool(re.search(r"\b(crate|super)::", dsrc)) or ("mod seed_demo_" in meta_txt and "src/seed_demo_" in meta_txt)
if unit and "simple-mdns/src" in meta_txt:
    crate = "simple-mdns"
features = " --all-features" if crate == "simple-mdns" else ""
if unit:
    # crate-private demonstration: a unit-test module src/seed_demo_<k>.rs plus one `#[cfg(test)] mod` line in lib.rs
    dpath = os.path.join(wt, crate, "src", tname + ".rs")
    libp = os.path.join(wt, crate, "src", "lib.rs")
    modline = "\n#[cfg(test)] mod %s;\n" % tname
    demo_cmd = "cargo test -p %s --offline%s --lib %s" % (crate, features, tname)
else:
    dpath = os.path.join(wt, crate, "tests", tname + ".rs")
    demo_cmd = "cargo test -p %s --offline%s --test %s" % (crate, features, tname)


def place_demo():
    shutil.copy(demo, dpath)
    if unit:
        with open(libp, "a") as fh:
            fh.write(modline)


def remove_demo():
    if os.path.exists(dpath):
        os.unlink(dpath)
    if unit:
        t = open(libp).read()
        open(libp, "w").write(t.replace(modline, ""))


ran = []
# 1. change applied: suite passes
r = sh("git apply %s" % patch)
if r.returncode != 0:
    print("PATCH DOES NOT APPLY", r.stdout)
    sys.exit(1)
r = sh("cargo test --workspace --offline 2>&1 | grep -E '^test result|FAILED|error' ", timeout=1800)
suite_ok = "FAILED" not in r.stdout and "error" not in r.stdout and "test result: ok" in r.stdout
ran.append("with change: cargo test --workspace --offline -> %s" % ("all pass" if suite_ok else "FAIL: " + r.stdout[-300:]))
# 2. demo fails with the change
place_demo()
r = sh("timeout 900 %s 2>&1 | tail -5000" % demo_cmd)
ran_some = re.search(r"running [1-9]\d* test", r.stdout) is not None
demo_fails = ran_some and (("test result: FAILED" in r.stdout) or ("panicked" in r.stdout and "test result: ok" not in r.stdout))
ran.append("with change: %s -> %s" % (demo_cmd, "FAILS (expected)" if demo_fails else "passes?! " + r.stdout[-300:]))
# 3. demo passes without the change
sh("git apply -R %s" % patch)
r = sh("timeout 900 %s 2>&1 | tail -5000" % demo_cmd)
demo_passes = "test result: ok" in r.stdout and "FAILED" not in r.stdout and re.search(r"running [1-9]\d* test", r.stdout) is not None
ran.append("clean tree: %s -> %s" % (demo_cmd, "passes (expected)" if demo_passes else "FAIL: " + r.stdout[-300:]))
remove_demo()
sh("git checkout -- .")
print("\n".join(ran))
if not (suite_ok and demo_fails and demo_passes):
    print("NOT KEPT")
    sys.exit(1)
out = os.path.join("/verif/seeded", name)
os.makedirs(out, exist_ok=True)
shutil.copy(patch, os.path.join(out, "patch.diff"))
shutil.copy(demo, os.path.join(out, "demo.rs"))
files = re.findall(r"^\+\+\+ b/(.*)$", open(patch).read(), re.M)
json.dump({"property": prop, "breaks": meta_txt.strip()[:1500], "files": files,
           "demo_path": os.path.relpath(dpath, wt),
           "demo_mod_line": ("#[cfg(test)] mod %s;  (appended to %s/src/lib.rs)" % (tname, crate)) if unit else None,
           "demo_cmd": demo_cmd,
           "confirmed": ran, "source": "independent sub-agent given only the property text and a scratch worktree"},
          open(os.path.join(out, "meta.json"), "w"), indent=1)
print("KEPT", out)
