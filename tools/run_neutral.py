#!/usr/bin/env python3
"""run_neutral.py [--jobs N] [name ...]
Behaviour-preserving refactorings (/verif/neutral/<name>/patch.diff, written by independent sub-agents: renames, extracted
helpers, rewritten control flow, mirrored comparisons, named constants).  Each is applied to a scratch worktree of /repo's HEAD,
the repository's test suite is run on it (it must pass), then every check is run on it: none may fire.
Writes /verif/neutral/RESULTS.json."""
import json
import os
import subprocess
import sys
import threading

ROOT = "/verif/neutral"
args = sys.argv[1:]
jobs = 4
if "--jobs" in args:
    i = args.index("--jobs")
    jobs = int(args[i + 1])
    del args[i:i + 2]
notest = "--no-test" in args
args = [a for a in args if a != "--no-test"]
names = args or sorted(n for n in os.listdir(ROOT) if os.path.isdir(os.path.join(ROOT, n)))
resp = os.path.join(ROOT, "RESULTS.json")
results = json.load(open(resp)) if os.path.exists(resp) else {}
lock = threading.Lock()


def sh(cmd, **kw):
    return subprocess.run(cmd, shell=True, stdout=subprocess.PIPE, stderr=subprocess.STDOUT, text=True, **kw)


def run_one(n, tree, evdir):
    d = os.path.join(ROOT, n)
    sh("git -C %s checkout -- ." % tree)
    r = sh("git -C %s apply %s" % (tree, os.path.join(d, "patch.diff")))
    if r.returncode != 0:
        return {"applied": False, "note": r.stdout[-300:]}
    out = {"applied": True}
    try:
        if not notest:
            r = sh("cd %s && CARGO_NET_OFFLINE=true cargo test --workspace --offline 2>&1 | grep -E '^test result|FAILED|^error'" % tree)
            out["suite_passes"] = "FAILED" not in r.stdout and "error" not in r.stdout and "test result: ok" in r.stdout
        env = dict(os.environ, SDLINT_EVIDENCE=evdir, SDLINT_REPO=tree)
        r = subprocess.run(["/verif/check", "all"], cwd="/verif", env=env, stdout=subprocess.PIPE, stderr=subprocess.STDOUT, text=True)
        fired = {}
        cur = []
        for l in r.stdout.splitlines():
            if l.startswith("   "):
                cur.append(l.strip()[:300])
            elif l.startswith("RESULT "):
                p = l.split()[1]
                rc = int(l.split("exit=")[1])
                if rc != 0:
                    fired[p] = {"exit": rc, "reports": cur[:3]}
                cur = []
        if "RESULT" not in r.stdout:
            fired["infrastructure"] = {"exit": r.returncode, "reports": [r.stdout[-400:]]}
        out["false_alarms"] = fired
    finally:
        sh("git -C %s checkout -- ." % tree)
    return out


def worker(i, queue):
    tree = "/tmp/sdlint-nw%d" % i
    sh("git -C /repo worktree remove --force %s" % tree)
    sh("git -C /repo worktree add -q --detach %s HEAD" % tree)
    try:
        while True:
            with lock:
                if not queue:
                    break
                n = queue.pop(0)
            res = run_one(n, tree, "/tmp/sdlint-neutral-ev%d" % i)
            with lock:
                results[n] = res
                print(n, "->", {k: v["exit"] for k, v in res.get("false_alarms", {}).items()} or "silent",
                      "" if res.get("suite_passes", True) else "(SUITE FAILS)", flush=True)
                json.dump(results, open(resp, "w"), indent=1)
    finally:
        sh("git -C /repo worktree remove --force %s; rm -rf %s/target /tmp/sdlint-neutral-ev%d" % (tree, tree, i))


queue = list(names)
ts = [threading.Thread(target=worker, args=(i, queue)) for i in range(jobs)]
for t in ts:
    t.start()
for t in ts:
    t.join()
sh("git -C /repo worktree prune")
bad = [n for n in names if results.get(n, {}).get("false_alarms")]
print("%d refactorings, %d with a false alarm" % (len(names), len(bad)))
