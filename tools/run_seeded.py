#!/usr/bin/env python3
"""run_seeded.py [seed-name ...]  - apply each kept seeded change to /repo, run the checks, undo it, record which fired.
Writes /verif/seeded/RESULTS.json."""
import json
import os
import subprocess
import sys

SEEDED = "/verif/seeded"
names = sys.argv[1:] or sorted(n for n in os.listdir(SEEDED) if os.path.isdir(os.path.join(SEEDED, n)))
props = [json.loads(l)["id"] for l in open("/verif/properties.jsonl")]
claimed = [c["property_id"] for c in json.load(open("/verif/MANIFEST.json"))["checks"]]
resp = os.path.join(SEEDED, "RESULTS.json")
results = json.load(open(resp)) if os.path.exists(resp) else {}
for n in names:
    d = os.path.join(SEEDED, n)
    meta = json.load(open(os.path.join(d, "meta.json")))
    assert subprocess.run("git -C /repo status --porcelain", shell=True, stdout=subprocess.PIPE, text=True).stdout.strip() == "", "/repo not clean"
    r = subprocess.run("git -C /repo apply %s" % os.path.join(d, "patch.diff"), shell=True, stdout=subprocess.PIPE, stderr=subprocess.STDOUT, text=True)
    if r.returncode != 0:
        results[n] = {"property": meta["property"], "applied": False, "note": r.stdout[-300:]}
        print(n, "does not apply")
        continue
    fired = {}
    try:
        env = dict(os.environ, SDLINT_EVIDENCE="/tmp/sdlint-seed-ev")
        r = subprocess.run(["/verif/check", "all"], cwd="/verif", env=env, stdout=subprocess.PIPE, stderr=subprocess.STDOUT, text=True)
        cur = []
        for l in r.stdout.splitlines():
            if l.startswith("   "):
                cur.append(l.strip()[:300])
            elif l.startswith("RESULT "):
                p = l.split()[1]
                rc = int(l.split("exit=")[1])
                if rc != 0:
                    fired[p] = {"exit": rc, "reports": cur[:3]}
                cur = []
        if "RESULT" not in r.stdout:
            fired["infrastructure"] = {"exit": r.returncode, "reports": [r.stdout[-400:]]}
    finally:
        subprocess.run("git -C /repo checkout -- .", shell=True)
    results[n] = {"property": meta["property"], "applied": True, "detected_by_own_check": meta["property"] in fired,
                  "fired": fired}
    print(n, "->", {k: v["exit"] for k, v in fired.items()} or "NOT DETECTED", flush=True)
    json.dump(results, open(resp, "w"), indent=1)
subprocess.run("rm -rf /tmp/sdlint-seed-ev", shell=True)
