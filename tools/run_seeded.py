#!/usr/bin/env python3
"""run_seeded.py [--jobs N] [seed-name ...]
Applies each kept seeded change, runs every check (`./check all`), undoes the change and records which checks fired in
/verif/seeded/RESULTS.json.
 default     : serially on /repo itself (git -C /repo apply ; check ; git -C /repo checkout -- .)
 --jobs N    : N scratch worktrees of /repo's HEAD under /tmp (removed afterwards), one seed at a time in each; the checks
               are pointed at the worktree with SDLINT_REPO - same verdicts, N times faster."""
import json
import os
import subprocess
import sys
import threading

SEEDED = "/verif/seeded"
args = sys.argv[1:]
jobs = 0
if "--jobs" in args:
    i = args.index("--jobs")
    jobs = int(args[i + 1])
    del args[i:i + 2]
names = args or sorted(n for n in os.listdir(SEEDED) if os.path.isdir(os.path.join(SEEDED, n)))
resp = os.path.join(SEEDED, "RESULTS.json")
results = json.load(open(resp)) if os.path.exists(resp) else {}
lock = threading.Lock()


def sh(cmd, **kw):
    return subprocess.run(cmd, shell=True, stdout=subprocess.PIPE, stderr=subprocess.STDOUT, text=True, **kw)


def run_one(n, tree, evdir):
    d = os.path.join(SEEDED, n)
    meta = json.load(open(os.path.join(d, "meta.json")))
    assert sh("git -C %s status --porcelain" % tree).stdout.strip() == "", "%s not clean" % tree
    r = sh("git -C %s apply %s" % (tree, os.path.join(d, "patch.diff")))
    if r.returncode != 0:
        return {"property": meta["property"], "applied": False, "note": r.stdout[-300:]}
    fired = {}
    try:
        env = dict(os.environ, SDLINT_EVIDENCE=evdir, SDLINT_REPO=tree)
        r = subprocess.run(["/verif/check", "all"], cwd="/verif", env=env, stdout=subprocess.PIPE, stderr=subprocess.STDOUT, text=True)
        cur = []
        for l in r.stdout.splitlines():
            if l.startswith("   "):
                cur.append(l.strip()[:300])
            elif l.startswith("RESULT "):
                p = l.split()[1]
                rc = int(l.split("exit=")[1])
                if rc != 0:
                    fired[p] = {"exit": rc, "reports": cur[:3]}
                cur = []
        if "RESULT" not in r.stdout:
            fired["infrastructure"] = {"exit": r.returncode, "reports": [r.stdout[-400:]]}
    finally:
        sh("git -C %s checkout -- ." % tree)
    return {"property": meta["property"], "applied": True, "detected_by_own_check": meta["property"] in fired, "fired": fired}


def record(n, res):
    with lock:
        results[n] = res
        print(n, "->", {k: v["exit"] for k, v in res.get("fired", {}).items()} or ("NOT DETECTED" if res.get("applied") else "does not apply"), flush=True)
        json.dump(results, open(resp, "w"), indent=1)


if jobs <= 1:
    for n in names:
        record(n, run_one(n, "/repo", "/tmp/sdlint-seed-ev"))
    sh("rm -rf /tmp/sdlint-seed-ev")
else:
    queue = list(names)

    def worker(i):
        tree = "/tmp/sdlint-sw%d" % i
        sh("git -C /repo worktree remove --force %s" % tree)
        r = sh("git -C /repo worktree add -q --detach %s HEAD" % tree)
        try:
            while True:
                with lock:
                    if not queue:
                        break
                    n = queue.pop(0)
                record(n, run_one(n, tree, "/tmp/sdlint-seed-ev%d" % i))
        finally:
            sh("git -C /repo worktree remove --force %s; rm -rf /tmp/sdlint-seed-ev%d" % (tree, i))
    ts = [threading.Thread(target=worker, args=(i,)) for i in range(jobs)]
    for t in ts:
        t.start()
    for t in ts:
        t.join()
    sh("git -C /repo worktree prune")
