#!/bin/bash
# try_patch.sh <scratch worktree> <patch file> <check...> : apply a patch to a scratch worktree (never /repo) and run checks on it
wt=$1; pf=$2; shift 2
[ "$wt" = "/repo" ] && { echo "refusing to patch /repo"; exit 2; }
(cd $wt && git checkout -q -- . && git clean -fdq -e target && git apply $pf) || exit 2
echo "== $pf"
for c in "$@"; do
  SDLINT_REPO=$wt SDLINT_EVIDENCE=/tmp/devev /verif/check $c 2>&1 | grep -A1 "^VIOLATION\|Traceback\|Error" | grep -v "^VIOL\|^--" | cut -c1-300 | head -4
done
(cd $wt && git checkout -q -- . && git clean -fdq -e target)
