// sdlint — rustc_private driver that exports the type-checked, callee-resolved
// MIR of the crate being compiled as a JSON fact file.  It is injected with
// RUSTC_WORKSPACE_WRAPPER under `cargo +nightly check`; nothing of the analysed
// crate is executed.  The rule engine (/verif/rules) reads the fact files.
//
// Output: $SDLINT_OUT/<crate_name>.json (one write per process).
#![feature(rustc_private)]
#![allow(rustc::internal)]

extern crate rustc_abi;
extern crate rustc_driver;
extern crate rustc_hir;
extern crate rustc_interface;
extern crate rustc_middle;
extern crate rustc_span;
extern crate rustc_type_ir;

use std::collections::HashMap;
use std::fmt::Write as _;

use rustc_driver::{Callbacks, Compilation};
use rustc_hir::def::DefKind;
use rustc_hir::def_id::{DefId, LOCAL_CRATE};
use rustc_interface::interface::Compiler;
use rustc_middle::mir::{
    self, AggregateKind, AssertKind, BasicBlock, Body, Const, ConstValue, Operand,
    PlaceRef, ProjectionElem, Rvalue, StatementKind, TerminatorKind, VarDebugInfoContents,
};
use rustc_middle::ty::print::{with_no_trimmed_paths, PrintTraitRefExt};
use rustc_middle::ty::{self, Instance, Ty, TyCtxt, TypingEnv};
use rustc_middle::traits::ImplSource;
use rustc_middle::ty::TypeVisitableExt;
use rustc_span::{ExpnKind, Span};
use std::collections::{BTreeSet, HashSet};

// ---------------------------------------------------------------- JSON helper

fn esc(s: &str) -> String {
    let mut o = String::with_capacity(s.len() + 2);
    o.push('"');
    for c in s.chars() {
        match c {
            '"' => o.push_str("\\\""),
            '\\' => o.push_str("\\\\"),
            '\n' => o.push_str("\\n"),
            '\r' => o.push_str("\\r"),
            '\t' => o.push_str("\\t"),
            c if (c as u32) < 0x20 => {
                let _ = write!(o, "\\u{:04x}", c as u32);
            }
            c => o.push(c),
        }
    }
    o.push('"');
    o
}

fn jlist(items: &[String]) -> String {
    format!("[{}]", items.join(","))
}

// ---------------------------------------------------------------- exporter

struct Ex<'tcx> {
    tcx: TyCtxt<'tcx>,
    krate: String,
    types: Vec<String>,
    type_ix: HashMap<Ty<'tcx>, usize>,
    files: Vec<String>,
    file_ix: HashMap<String, usize>,
}

impl<'tcx> Ex<'tcx> {
    fn path(&self, def_id: DefId) -> String {
        let s = with_no_trimmed_paths!(self.tcx.def_path_str(def_id));
        if def_id.is_local() {
            format!("{}::{}", self.krate, s)
        } else {
            s
        }
    }

    /// canonical id, identical in the defining crate and in dependants
    fn id(&self, def_id: DefId) -> String {
        let tcx = self.tcx;
        format!("{}{}", tcx.crate_name(def_id.krate), tcx.def_path(def_id).to_string_no_crate_verbose())
    }

    fn path_args(&self, def_id: DefId, args: ty::GenericArgsRef<'tcx>) -> String {
        let s = with_no_trimmed_paths!(self.tcx.def_path_str_with_args(def_id, args));
        if def_id.is_local() {
            format!("{}::{}", self.krate, s)
        } else {
            s
        }
    }

    fn ty_str(&self, t: Ty<'tcx>) -> String {
        with_no_trimmed_paths!(format!("{}", t))
    }

    fn ty(&mut self, t: Ty<'tcx>) -> usize {
        if let Some(i) = self.type_ix.get(&t) {
            return *i;
        }
        // reserve the slot first (recursive types cannot occur structurally, but keep order stable)
        let ix = self.types.len();
        self.types.push(String::new());
        self.type_ix.insert(t, ix);
        let s = esc(&self.ty_str(t));
        let body = match t.kind() {
            ty::Bool => format!("{{\"k\":\"bool\",\"s\":{}}}", s),
            ty::Char => format!("{{\"k\":\"char\",\"s\":{}}}", s),
            ty::Int(i) => {
                let w = i.bit_width().unwrap_or(64);
                format!("{{\"k\":\"int\",\"w\":{},\"sg\":true,\"s\":{}}}", w, s)
            }
            ty::Uint(u) => {
                let w = u.bit_width().unwrap_or(64);
                format!("{{\"k\":\"int\",\"w\":{},\"sg\":false,\"s\":{}}}", w, s)
            }
            ty::Float(_) => format!("{{\"k\":\"float\",\"s\":{}}}", s),
            ty::Str => format!("{{\"k\":\"str\",\"s\":{}}}", s),
            ty::Never => format!("{{\"k\":\"never\",\"s\":{}}}", s),
            ty::Ref(_, inner, m) => {
                let i = self.ty(*inner);
                format!("{{\"k\":\"ref\",\"mut\":{},\"t\":{},\"s\":{}}}", m.is_mut(), i, s)
            }
            ty::RawPtr(inner, m) => {
                let i = self.ty(*inner);
                format!("{{\"k\":\"ptr\",\"mut\":{},\"t\":{},\"s\":{}}}", m.is_mut(), i, s)
            }
            ty::Slice(inner) => {
                let i = self.ty(*inner);
                format!("{{\"k\":\"slice\",\"t\":{},\"s\":{}}}", i, s)
            }
            ty::Array(inner, n) => {
                let i = self.ty(*inner);
                let len = n.try_to_target_usize(self.tcx);
                let l = match len {
                    Some(v) => v.to_string(),
                    None => "null".into(),
                };
                format!("{{\"k\":\"array\",\"t\":{},\"n\":{},\"s\":{}}}", i, l, s)
            }
            ty::Tuple(ts) => {
                let v: Vec<String> = ts.iter().map(|x| self.ty(x).to_string()).collect();
                format!("{{\"k\":\"tuple\",\"ts\":{},\"s\":{}}}", jlist(&v), s)
            }
            ty::Adt(adt, args) => {
                let name = esc(&self.path(adt.did()));
                let v: Vec<String> = args.types().map(|x| self.ty(x).to_string()).collect();
                format!("{{\"k\":\"adt\",\"name\":{},\"args\":{},\"s\":{}}}", name, jlist(&v), s)
            }
            ty::Param(p) => format!("{{\"k\":\"param\",\"name\":{},\"s\":{}}}", esc(p.name.as_str()), s),
            ty::Closure(def, _) => format!("{{\"k\":\"closure\",\"def\":{},\"s\":{}}}", esc(&self.id(*def)), s),
            ty::Coroutine(def, _) => format!("{{\"k\":\"coroutine\",\"def\":{},\"s\":{}}}", esc(&self.id(*def)), s),
            ty::FnDef(def, args) => {
                let targs: Vec<String> = args.types().map(|x| self.ty(x).to_string()).collect();
                format!(
                    "{{\"k\":\"fndef\",\"def\":{},\"args\":{},\"s\":{}}}",
                    esc(&self.id(*def)),
                    jlist(&targs),
                    s
                )
            }
            ty::FnPtr(..) => format!("{{\"k\":\"fnptr\",\"s\":{}}}", s),
            ty::Dynamic(..) => format!("{{\"k\":\"dyn\",\"s\":{}}}", s),
            ty::Alias(..) => format!("{{\"k\":\"alias\",\"s\":{}}}", s),
            _ => format!("{{\"k\":\"other\",\"s\":{}}}", s),
        };
        self.types[ix] = body;
        ix
    }

    fn file(&mut self, name: String) -> usize {
        if let Some(i) = self.file_ix.get(&name) {
            return *i;
        }
        let ix = self.files.len();
        self.files.push(name.clone());
        self.file_ix.insert(name, ix);
        ix
    }

    /// span -> {"f":file,"l":line,"c":col,"el":endline,"exp":[kind,name]|null,"sn":snippet}
    fn span(&mut self, sp: Span, snippet: bool) -> String {
        let sm = self.tcx.sess.source_map();
        let exp = if sp.from_expansion() {
            // chain of expansions, innermost first
            let mut chain = Vec::new();
            let mut cur = sp;
            let mut guard = 0;
            while cur.from_expansion() && guard < 12 {
                let d = cur.ctxt().outer_expn_data();
                let (k, n) = match d.kind {
                    ExpnKind::Root => ("root", String::new()),
                    ExpnKind::Macro(mk, name) => (
                        match mk {
                            rustc_span::MacroKind::Bang => "bang",
                            rustc_span::MacroKind::Attr => "attr",
                            rustc_span::MacroKind::Derive => "derive",
                        },
                        name.to_string(),
                    ),
                    ExpnKind::AstPass(_) => ("astpass", String::new()),
                    ExpnKind::Desugaring(dk) => ("desugar", format!("{:?}", dk)),
                };
                let mk = match d.macro_def_id {
                    Some(m) => self.tcx.crate_name(m.krate).to_string(),
                    None => String::new(),
                };
                chain.push(format!("[{},{},{}]", esc(k), esc(&n), esc(&mk)));
                cur = d.call_site;
                guard += 1;
            }
            jlist(&chain)
        } else {
            "null".to_string()
        };
        // position: the outermost call site when expanded (so reports point at user code)
        let site = if sp.from_expansion() { sp.source_callsite() } else { sp };
        let lo = sm.lookup_char_pos(site.lo());
        let hi = sm.lookup_char_pos(site.hi());
        let fname = format!("{}", lo.file.name.prefer_local_unconditionally());
        let f = self.file(fname);
        let sn = if snippet {
            match sm.span_to_snippet(sp) {
                Ok(s) => {
                    let s: String = s.split_whitespace().collect::<Vec<_>>().join(" ");
                    let s: String = s.chars().take(160).collect();
                    esc(&s)
                }
                Err(_) => "null".to_string(),
            }
        } else {
            "null".to_string()
        };
        format!(
            "{{\"f\":{},\"l\":{},\"c\":{},\"el\":{},\"exp\":{},\"sn\":{}}}",
            f,
            lo.line,
            lo.col.0 + 1,
            hi.line,
            exp,
            sn
        )
    }

    fn place(&mut self, body: &Body<'tcx>, p: PlaceRef<'tcx>) -> String {
        let tcx = self.tcx;
        let mut projs = Vec::new();
        let mut pty = mir::PlaceTy::from_ty(body.local_decls[p.local].ty);
        for elem in p.projection.iter() {
            let s = match elem {
                ProjectionElem::Deref => "\"d\"".to_string(),
                ProjectionElem::Field(f, _) => {
                    let mut name = "null".to_string();
                    let mut adtn = "null".to_string();
                    let mut var = "null".to_string();
                    if let ty::Adt(adt, _) = pty.ty.kind() {
                        let vi = pty.variant_index.unwrap_or(rustc_abi::FIRST_VARIANT);
                        if (vi.as_usize()) < adt.variants().len() {
                            let v = adt.variant(vi);
                            if f.as_usize() < v.fields.len() {
                                name = esc(v.fields[*f].name.as_str());
                            }
                            var = esc(v.name.as_str());
                        }
                        adtn = esc(&self.path(adt.did()));
                    }
                    format!("{{\"f\":{},\"n\":{},\"adt\":{},\"v\":{}}}", f.as_usize(), name, adtn, var)
                }
                ProjectionElem::Index(l) => format!("{{\"ix\":{}}}", l.as_usize()),
                ProjectionElem::ConstantIndex { offset, min_length, from_end } => {
                    format!("{{\"cix\":{},\"min\":{},\"end\":{}}}", offset, min_length, from_end)
                }
                ProjectionElem::Subslice { from, to, from_end } => {
                    format!("{{\"sub\":[{},{}],\"end\":{}}}", from, to, from_end)
                }
                ProjectionElem::Downcast(name, vi) => {
                    let n = match name {
                        Some(s) => esc(s.as_str()),
                        None => "null".into(),
                    };
                    format!("{{\"dc\":{},\"n\":{}}}", vi.as_usize(), n)
                }
                ProjectionElem::OpaqueCast(_) => "\"opaque\"".to_string(),
                ProjectionElem::UnwrapUnsafeBinder(_) => "\"unbinder\"".to_string(),
            };
            projs.push(s);
            pty = pty.projection_ty(tcx, *elem);
        }
        let t = self.ty(pty.ty);
        format!("{{\"l\":{},\"p\":{},\"t\":{}}}", p.local.as_usize(), jlist(&projs), t)
    }

    fn konst(&mut self, body: &Body<'tcx>, c: &mir::ConstOperand<'tcx>, env: TypingEnv<'tcx>) -> String {
        let _ = body;
        let tcx = self.tcx;
        let cty = c.const_.ty();
        let t = self.ty(cty);
        let mut extra = String::new();
        if let Const::Unevaluated(u, _) = c.const_ {
            let _ = write!(extra, ",\"uneval\":{}", esc(&self.path_args(u.def, u.args)));
            if let Some(p) = u.promoted {
                let _ = write!(extra, ",\"promoted\":{}", esc(&format!("{}::promoted[{}]", self.id(u.def), p.as_usize())));
            }
        }
        if let ty::FnDef(def, args) = cty.kind() {
            let callee = self.callee(*def, args, env);
            return format!("{{\"c\":\"fn\",\"t\":{},\"callee\":{}}}", t, callee);
        }
        // scalar?
        let is_scalar_ty = matches!(cty.kind(), ty::Bool | ty::Char | ty::Int(_) | ty::Uint(_));
        if is_scalar_ty {
            if let Some(si) = c.const_.try_eval_scalar_int(tcx, env) {
                let size = si.size();
                let raw = si.to_bits(size);
                let val: String = match cty.kind() {
                    ty::Int(_) => {
                        let v = size.sign_extend(raw) as i128;
                        v.to_string()
                    }
                    _ => raw.to_string(),
                };
                return format!("{{\"c\":\"int\",\"t\":{},\"v\":{}{}}}", t, esc(&val), extra);
            }
            // a const generic parameter (`N` in `fn f<const N: usize>`): named, so that an inlined copy can take the
            // caller's argument
            if let Const::Ty(_, ct) = c.const_ {
                if let ty::ConstKind::Param(pc) = ct.kind() {
                    let _ = write!(extra, ",\"param\":{}", esc(pc.name.as_str()));
                }
            }
            return format!("{{\"c\":\"unk\",\"t\":{}{}}}", t, extra);
        }
        // length of slice-typed constants (e.g. bitflags' FLAGS table)
        if let ty::Ref(_, inner, _) = cty.kind() {
            if matches!(inner.kind(), ty::Slice(_) | ty::Str) {
                match c.const_.eval(tcx, env, c.span) {
                    Ok(ConstValue::Slice { meta, .. }) => {
                        let _ = write!(extra, ",\"len\":{}", meta);
                    }
                    Ok(ConstValue::Indirect { alloc_id, offset }) => {
                        // fat pointer stored in memory: (ptr, len); read the length word
                        if let rustc_middle::mir::interpret::GlobalAlloc::Memory(alloc) = tcx.global_alloc(alloc_id) {
                            let a = alloc.inner();
                            let off = offset.bytes() as usize + 8;
                            if off + 8 <= a.len() {
                                let bytes = a.inspect_with_uninit_and_ptr_outside_interpreter(off..off + 8);
                                let mut v: u64 = 0;
                                for (i, b) in bytes.iter().enumerate() {
                                    v |= (*b as u64) << (8 * i);
                                }
                                let _ = write!(extra, ",\"len\":{}", v);
                            }
                        }
                    }
                    _ => {}
                }
            }
        }
        // byte string / str literal
        if let Const::Val(ConstValue::Slice { alloc_id, meta }, _) = c.const_ {
            if let rustc_middle::mir::interpret::GlobalAlloc::Memory(alloc) = tcx.global_alloc(alloc_id) {
                let a = alloc.inner();
                let n = meta as usize;
                if n <= a.len() && n <= 256 {
                    let bytes = a.inspect_with_uninit_and_ptr_outside_interpreter(0..n);
                    let v: Vec<String> = bytes.iter().map(|b| b.to_string()).collect();
                    return format!("{{\"c\":\"bytes\",\"t\":{},\"v\":{}{}}}", t, jlist(&v), extra);
                }
            }
        }
        if let Const::Val(ConstValue::ZeroSized, _) = c.const_ {
            return format!("{{\"c\":\"zst\",\"t\":{}{}}}", t, extra);
        }
        // newtype-of-int / reference-to-array constants: try to evaluate and, when the
        // value is a plain scalar (e.g. bitflags newtypes), export it
        if let Ok(v) = c.const_.eval(tcx, env, c.span) {
            if let ConstValue::Scalar(rustc_middle::mir::interpret::Scalar::Int(si)) = v {
                let raw = si.to_bits(si.size());
                return format!("{{\"c\":\"int\",\"t\":{},\"v\":{}{}}}", t, esc(&raw.to_string()), extra);
            }
            if let ConstValue::Indirect { alloc_id, offset } = v {
                // small by-ref constants: export raw bytes (arrays of u8 such as &[0,0])
                if let rustc_middle::mir::interpret::GlobalAlloc::Memory(alloc) = tcx.global_alloc(alloc_id) {
                    let a = alloc.inner();
                    let off = offset.bytes() as usize;
                    if a.len() <= 64 && off <= a.len() && a.provenance().ptrs().is_empty() {
                        let bytes = a.inspect_with_uninit_and_ptr_outside_interpreter(off..a.len());
                        let v: Vec<String> = bytes.iter().map(|b| b.to_string()).collect();
                        return format!("{{\"c\":\"raw\",\"t\":{},\"v\":{}{}}}", t, jlist(&v), extra);
                    }
                }
            }
        }
        let dbg = with_no_trimmed_paths!(format!("{}", c.const_));
        format!("{{\"c\":\"other\",\"t\":{},\"s\":{}{}}}", t, esc(&dbg), extra)
    }

    /// Describe a callee (resolved through trait selection when possible).
    fn callee(&mut self, def: DefId, args: ty::GenericArgsRef<'tcx>, env: TypingEnv<'tcx>) -> String {
        let tcx = self.tcx;
        let mut resolved_def = def;
        let mut resolved_args = args;
        let mut resolved = false;
        let trait_item = tcx.trait_of_assoc(def).is_some();
        // try_resolve may ICE on args with escaping bound vars etc.; guard with has_param check only for reporting
        if let Ok(Some(inst)) = Instance::try_resolve(tcx, env, def, args) {
            match inst.def {
                ty::InstanceKind::Item(d) => {
                    resolved_def = d;
                    resolved_args = inst.args;
                    // a trait method with a default body resolves to the trait's own item;
                    // that is still a real body, so count it as resolved when it has MIR
                    resolved = !(tcx.trait_of_assoc(d).is_some() && !tcx.is_mir_available(d) && d.is_local());
                    if tcx.trait_of_assoc(d).is_some() {
                        // default method body (provided method): resolved only if the trait provides it
                        resolved = tcx.defaultness(d).has_value();
                    }
                }
                ty::InstanceKind::Virtual(d, _) => {
                    resolved_def = d;
                    resolved = false;
                }
                ty::InstanceKind::ClosureOnceShim { call_once: _, .. } => {
                    resolved = false;
                }
                ty::InstanceKind::FnPtrShim(..) | ty::InstanceKind::ReifyShim(..) => {
                    resolved = false;
                }
                ty::InstanceKind::Intrinsic(d) => {
                    resolved_def = d;
                    resolved = true;
                }
                _ => {
                    resolved_def = inst.def_id();
                    resolved_args = inst.args;
                    resolved = false;
                }
            }
        }
        let name = esc(&self.path(resolved_def));
        let full = esc(&self.path_args(resolved_def, resolved_args));
        let orig = esc(&self.path(def));
        let targs: Vec<String> = args.types().map(|x| self.ty(x).to_string()).collect();
        // const generic arguments by parameter name (own parameters of the resolved item)
        let mut cargs: Vec<String> = Vec::new();
        {
            let g = tcx.generics_of(resolved_def);
            for p in g.own_params.iter() {
                if let ty::GenericParamDefKind::Const { .. } = p.kind {
                    if let Some(a) = resolved_args.get(p.index as usize) {
                        if let Some(ct) = a.as_const() {
                            if let Some(v) = ct.try_to_target_usize(tcx) {
                                cargs.push(format!("[{},{}]", esc(p.name.as_str()), esc(&v.to_string())));
                            }
                        }
                    }
                }
            }
        }
        let krate = esc(tcx.crate_name(resolved_def.krate).as_str());
        let item_name = match tcx.opt_item_name(resolved_def) {
            Some(n) => esc(n.as_str()),
            None => "null".into(),
        };
        let trait_path = match tcx.trait_of_assoc(def) {
            Some(t) => esc(&self.path(t)),
            None => "null".into(),
        };
        // impl self type + trait of the resolved item (when it lives in an impl)
        let mut impl_of = "null".to_string();
        if let Some(imp) = tcx.impl_of_assoc(resolved_def) {
            let self_ty = tcx.type_of(imp).instantiate_identity().skip_norm_wip();
            let st = esc(&self.ty_str(self_ty));
            let tr = match tcx.impl_opt_trait_ref(imp) {
                Some(tr) => esc(&self.path(tr.skip_binder().def_id)),
                None => "null".into(),
            };
            impl_of = format!("{{\"self\":{},\"trait\":{}}}", st, tr);
        }
        let may_call = if !resolved_def.is_local() && !self.is_workspace(resolved_def) {
            let v: Vec<String> = self.ext_closure(resolved_def, resolved_args, env).into_iter().map(|x| esc(&x)).collect();
            jlist(&v)
        } else {
            "[]".to_string()
        };
        format!(
            "{{\"cargs\":{},\"may_call\":{},\"id\":{},\"def\":{},\"full\":{},\"orig\":{},\"resolved\":{},\"trait_item\":{},\"trait\":{},\"targs\":{},\"crate\":{},\"name\":{},\"local\":{},\"impl\":{}}}",
            jlist(&cargs),
            may_call,
            esc(&self.id(resolved_def)),
            name,
            full,
            orig,
            resolved,
            trait_item,
            trait_path,
            jlist(&targs),
            krate,
            item_name,
            resolved_def.is_local(),
            impl_of
        )
    }

    fn is_workspace(&self, d: DefId) -> bool {
        if d.is_local() {
            return true;
        }
        let n = self.tcx.crate_name(d.krate);
        let n = n.as_str();
        n == "simple_dns" || n == "simple_mdns" || n.starts_with("fx_")
    }

    /// Workspace trait-impl methods an external generic item may invoke, derived from its
    /// (elaborated, instantiated) where-clauses, transitively through external impls.
    fn ext_closure(&mut self, def: DefId, args: ty::GenericArgsRef<'tcx>, env: TypingEnv<'tcx>) -> BTreeSet<String> {
        let tcx = self.tcx;
        let mut out = BTreeSet::new();
        let mut visited: HashSet<(DefId, ty::GenericArgsRef<'tcx>)> = HashSet::new();
        let mut seen_tr: HashSet<ty::TraitRef<'tcx>> = HashSet::new();
        let mut work: Vec<(DefId, ty::GenericArgsRef<'tcx>, usize)> = vec![(def, args, 0)];
        while let Some((d, a, depth)) = work.pop() {
            if depth > 6 || !visited.insert((d, a)) {
                continue;
            }
            if a.has_non_region_param() || a.has_infer() {
                // still generic in the caller: handled by the class-hierarchy fallback
            }
            let preds = tcx.predicates_of(d).instantiate(tcx, a);
            let clauses: Vec<ty::Clause<'tcx>> = preds.predicates.iter().map(|c| c.skip_norm_wip()).collect();
            for clause in rustc_type_ir::elaborate::elaborate(tcx, clauses) {
                let Some(tp) = clause.as_trait_clause() else { continue };
                let Some(tp) = tp.no_bound_vars() else { continue };
                let tr = tp.trait_ref;
                let tr = match tcx.try_normalize_erasing_regions(env, rustc_middle::ty::Unnormalized::new_wip(tr)) {
                    Ok(t) => t,
                    Err(_) => continue,
                };
                self.select_tr(tr, env, &mut out, &mut work, &mut seen_tr, depth);
            }
        }
        out
    }

    fn select_tr(
        &mut self,
        tr: ty::TraitRef<'tcx>,
        env: TypingEnv<'tcx>,
        out: &mut BTreeSet<String>,
        work: &mut Vec<(DefId, ty::GenericArgsRef<'tcx>, usize)>,
        seen: &mut HashSet<ty::TraitRef<'tcx>>,
        depth: usize,
    ) {
        let tcx = self.tcx;
        if tr.has_non_region_param() || tr.has_infer() || tr.has_aliases() {
            return;
        }
        if !seen.insert(tr) {
            return;
        }
        let fns: Vec<DefId> = tcx
            .associated_items(tr.def_id)
            .in_definition_order()
            .filter(|i| matches!(i.kind, ty::AssocKind::Fn { .. }))
            .map(|i| i.def_id)
            .collect();
        if fns.is_empty() {
            return;
        }
        match tcx.codegen_select_candidate(env.as_query_input(tr)) {
            Ok(ImplSource::UserDefined(data)) => {
                let impl_id = data.impl_def_id;
                if self.is_workspace(impl_id) {
                    let map = tcx.impl_item_implementor_ids(impl_id);
                    for f in fns {
                        let target = map.get(&f).copied().unwrap_or(f);
                        out.insert(self.id(target));
                    }
                } else {
                    work.push((impl_id, data.args, depth + 1));
                }
            }
            Ok(ImplSource::Builtin(..)) => {
                // structural impls (tuples, arrays, slices, closures' upvars): same trait on components
                let self_ty = tr.self_ty();
                let comps: Vec<Ty<'tcx>> = match self_ty.kind() {
                    ty::Tuple(ts) => ts.iter().collect(),
                    ty::Array(t, _) | ty::Slice(t) => vec![*t],
                    ty::Closure(_, cargs) => cargs.as_closure().upvar_tys().iter().collect(),
                    _ => vec![],
                };
                for c in comps {
                    let mut new_args: Vec<ty::GenericArg<'tcx>> = vec![c.into()];
                    new_args.extend(tr.args.iter().skip(1));
                    let ntr = ty::TraitRef::new(tcx, tr.def_id, new_args);
                    self.select_tr(ntr, env, out, work, seen, depth);
                }
            }
            _ => {}
        }
    }

    fn operand(&mut self, body: &Body<'tcx>, op: &Operand<'tcx>, env: TypingEnv<'tcx>) -> String {
        match op {
            Operand::Copy(p) => format!("{{\"o\":\"copy\",\"pl\":{}}}", self.place(body, p.as_ref())),
            Operand::Move(p) => format!("{{\"o\":\"move\",\"pl\":{}}}", self.place(body, p.as_ref())),
            Operand::Constant(c) => format!("{{\"o\":\"const\",\"k\":{}}}", self.konst(body, c, env)),
            _ => "{\"o\":\"runtime_checks\"}".to_string(),
        }
    }

    fn rvalue(&mut self, body: &Body<'tcx>, rv: &Rvalue<'tcx>, env: TypingEnv<'tcx>) -> String {
        let tcx = self.tcx;
        match rv {
            Rvalue::Use(op, ..) => format!("{{\"k\":\"use\",\"op\":{}}}", self.operand(body, op, env)),
            Rvalue::Repeat(op, n) => {
                let l = match n.try_to_target_usize(tcx) {
                    Some(v) => v.to_string(),
                    None => "null".into(),
                };
                format!("{{\"k\":\"repeat\",\"op\":{},\"n\":{}}}", self.operand(body, op, env), l)
            }
            Rvalue::Ref(_, bk, p) => {
                let m = matches!(bk, mir::BorrowKind::Mut { .. });
                format!("{{\"k\":\"ref\",\"mut\":{},\"pl\":{}}}", m, self.place(body, p.as_ref()))
            }
            Rvalue::RawPtr(_, p) => format!("{{\"k\":\"rawptr\",\"pl\":{}}}", self.place(body, p.as_ref())),
            Rvalue::Cast(ck, op, t) => {
                let ti = self.ty(*t);
                let cks = format!("{:?}", ck);
                let cks = cks.split('(').next().unwrap_or("").to_string();
                let mut unsize = String::new();
                if let mir::CastKind::PointerCoercion(pc, _) = ck {
                    let _ = write!(unsize, ",\"pc\":{}", esc(&format!("{:?}", pc)));
                }
                format!(
                    "{{\"k\":\"cast\",\"ck\":{},\"op\":{},\"t\":{}{}}}",
                    esc(&cks),
                    self.operand(body, op, env),
                    ti,
                    unsize
                )
            }
            Rvalue::BinaryOp(op, ab) => {
                let (a, b) = &**ab;
                format!(
                    "{{\"k\":\"bin\",\"op\":{},\"a\":{},\"b\":{}}}",
                    esc(&format!("{:?}", op)),
                    self.operand(body, a, env),
                    self.operand(body, b, env)
                )
            }
            Rvalue::UnaryOp(op, a) => format!(
                "{{\"k\":\"un\",\"op\":{},\"a\":{}}}",
                esc(&format!("{:?}", op)),
                self.operand(body, a, env)
            ),
            Rvalue::Discriminant(p) => format!("{{\"k\":\"discr\",\"pl\":{}}}", self.place(body, p.as_ref())),
            Rvalue::CopyForDeref(p) => format!("{{\"k\":\"use\",\"op\":{{\"o\":\"copy\",\"pl\":{}}}}}", self.place(body, p.as_ref())),
            Rvalue::Aggregate(ak, ops) => {
                let opsv: Vec<String> = ops.iter().map(|o| self.operand(body, o, env)).collect();
                let head = match &**ak {
                    AggregateKind::Array(t) => format!("\"ak\":\"array\",\"et\":{}", self.ty(*t)),
                    AggregateKind::Tuple => "\"ak\":\"tuple\"".to_string(),
                    AggregateKind::Adt(did, vi, _args, _, active) => {
                        let adt = tcx.adt_def(*did);
                        let v = adt.variant(*vi);
                        let fields: Vec<String> = v.fields.iter().map(|f| esc(f.name.as_str())).collect();
                        let act = match active {
                            Some(f) => f.as_usize().to_string(),
                            None => "null".into(),
                        };
                        format!(
                            "\"ak\":\"adt\",\"adt\":{},\"vi\":{},\"vn\":{},\"fields\":{},\"union_field\":{}",
                            esc(&self.path(*did)),
                            vi.as_usize(),
                            esc(v.name.as_str()),
                            jlist(&fields),
                            act
                        )
                    }
                    AggregateKind::Closure(did, _) => format!("\"ak\":\"closure\",\"def\":{}", esc(&self.id(*did))),
                    AggregateKind::Coroutine(did, _) => format!("\"ak\":\"coroutine\",\"def\":{}", esc(&self.id(*did))),
                    AggregateKind::CoroutineClosure(did, _) => {
                        format!("\"ak\":\"coroutine_closure\",\"def\":{}", esc(&self.path(*did)))
                    }
                    AggregateKind::RawPtr(..) => "\"ak\":\"rawptr\"".to_string(),
                };
                format!("{{\"k\":\"agg\",{},\"ops\":{}}}", head, jlist(&opsv))
            }
            Rvalue::ThreadLocalRef(_) => "{\"k\":\"tls\"}".to_string(),
            other => format!("{{\"k\":\"other\",\"s\":{}}}", esc(&format!("{:?}", other))),
        }
    }

    fn assert_kind(&mut self, body: &Body<'tcx>, m: &AssertKind<Operand<'tcx>>, env: TypingEnv<'tcx>) -> String {
        match m {
            AssertKind::BoundsCheck { len, index } => format!(
                "{{\"ak\":\"bounds\",\"len\":{},\"index\":{}}}",
                self.operand(body, len, env),
                self.operand(body, index, env)
            ),
            AssertKind::Overflow(op, a, b) => format!(
                "{{\"ak\":\"overflow\",\"op\":{},\"a\":{},\"b\":{}}}",
                esc(&format!("{:?}", op)),
                self.operand(body, a, env),
                self.operand(body, b, env)
            ),
            AssertKind::OverflowNeg(a) => format!("{{\"ak\":\"overflow_neg\",\"a\":{}}}", self.operand(body, a, env)),
            AssertKind::DivisionByZero(a) => format!("{{\"ak\":\"div_zero\",\"a\":{}}}", self.operand(body, a, env)),
            AssertKind::RemainderByZero(a) => format!("{{\"ak\":\"rem_zero\",\"a\":{}}}", self.operand(body, a, env)),
            AssertKind::ResumedAfterReturn(_) => "{\"ak\":\"resumed_after_return\"}".to_string(),
            AssertKind::ResumedAfterPanic(_) => "{\"ak\":\"resumed_after_panic\"}".to_string(),
            AssertKind::ResumedAfterDrop(_) => "{\"ak\":\"resumed_after_drop\"}".to_string(),
            AssertKind::MisalignedPointerDereference { .. } => "{\"ak\":\"misaligned\"}".to_string(),
            AssertKind::NullPointerDereference => "{\"ak\":\"nullptr\"}".to_string(),
            AssertKind::InvalidEnumConstruction(_) => "{\"ak\":\"invalid_enum\"}".to_string(),
        }
    }

    fn unwind(&self, u: &mir::UnwindAction) -> String {
        match u {
            mir::UnwindAction::Cleanup(bb) => bb.as_usize().to_string(),
            _ => "null".to_string(),
        }
    }

    fn body(&mut self, def_id: DefId, body: &Body<'tcx>, promoted: Option<usize>) -> String {
        let tcx = self.tcx;
        let env = TypingEnv::post_analysis(tcx, def_id);
        let mut o = String::new();
        let kind = format!("{:?}", tcx.def_kind(def_id));
        let name = match tcx.opt_item_name(def_id) {
            Some(n) => esc(n.as_str()),
            None => "null".into(),
        };
        let (idstr, kind) = match promoted {
            Some(i) => (format!("{}::promoted[{}]", self.id(def_id), i), "Promoted".to_string()),
            None => (self.id(def_id), kind),
        };
        let _ = write!(o, "{{\"id\":{},\"def\":{},\"kind\":{},\"name\":{}", esc(&idstr), esc(&self.path(def_id)), esc(&kind), name);
        // visibility (only for fns)
        let vis = match tcx.def_kind(def_id) {
            DefKind::Fn | DefKind::AssocFn => {
                if tcx.visibility(def_id).is_public() { "\"pub\"" } else { "\"restricted\"" }
            }
            _ => "null",
        };
        let _ = write!(o, ",\"vis\":{}", vis);
        // parent (closure -> enclosing fn)
        let parent = tcx.typeck_root_def_id(def_id);
        let _ = write!(o, ",\"root\":{}", esc(&self.id(parent)));
        // enclosing impl
        let mut impl_json = "null".to_string();
        if let Some(imp) = tcx.impl_of_assoc(parent) {
            let self_ty = tcx.type_of(imp).instantiate_identity().skip_norm_wip();
            let sti = self.ty(self_ty);
            let tr = match tcx.impl_opt_trait_ref(imp) {
                Some(tr) => esc(&self.path(tr.skip_binder().def_id)),
                None => "null".into(),
            };
            let tr_full = match tcx.impl_opt_trait_ref(imp) {
                Some(tr) => esc(&with_no_trimmed_paths!(format!("{}", tr.skip_binder().print_only_trait_path()))),
                None => "null".into(),
            };
            let derived = tcx.is_automatically_derived(imp);
            impl_json = format!(
                "{{\"self\":{},\"self_s\":{},\"trait\":{},\"trait_full\":{},\"derived\":{},\"impl_def\":{}}}",
                sti,
                esc(&self.ty_str(self_ty)),
                tr,
                tr_full,
                derived,
                esc(&self.path(imp))
            );
        }
        let _ = write!(o, ",\"impl\":{}", impl_json);
        let module = tcx.parent_module_from_def_id(parent.expect_local()).to_def_id();
        let _ = write!(o, ",\"module\":{}", esc(&self.path(module)));
        let _ = write!(o, ",\"span\":{}", self.span(body.span, false));
        // type parameters in substitution order (parents first): lets the rule engine instantiate
        // calls made through a type parameter from the callers' type arguments
        let mut gnames: Vec<String> = Vec::new();
        {
            let mut chain = Vec::new();
            let mut cur = Some(def_id);
            while let Some(d) = cur {
                let g = tcx.generics_of(d);
                chain.push(g);
                cur = g.parent;
            }
            for g in chain.iter().rev() {
                for p in g.own_params.iter() {
                    if matches!(p.kind, ty::GenericParamDefKind::Type { .. }) {
                        gnames.push(esc(p.name.as_str()));
                    }
                }
            }
        }
        let _ = write!(o, ",\"generics\":{}", jlist(&gnames));
        let _ = write!(o, ",\"argc\":{}", body.arg_count);
        // locals
        let mut locals = Vec::new();
        for (_l, d) in body.local_decls.iter_enumerated() {
            let t = self.ty(d.ty);
            locals.push(format!("{{\"t\":{},\"mut\":{}}}", t, d.mutability.is_mut()));
        }
        let _ = write!(o, ",\"locals\":{}", jlist(&locals));
        // debug names
        let mut dbg = Vec::new();
        for v in body.var_debug_info.iter() {
            if let VarDebugInfoContents::Place(p) = v.value {
                dbg.push(format!(
                    "{{\"name\":{},\"pl\":{}}}",
                    esc(v.name.as_str()),
                    self.place(body, p.as_ref())
                ));
            }
        }
        let _ = write!(o, ",\"debug\":{}", jlist(&dbg));
        // blocks
        let mut blocks = Vec::new();
        for (_bb, data) in body.basic_blocks.iter_enumerated() {
            let mut stmts = Vec::new();
            for st in data.statements.iter() {
                match &st.kind {
                    StatementKind::Assign(b) => {
                        let (pl, rv) = &**b;
                        let snippet = !matches!(rv, Rvalue::Use(..));
                        stmts.push(format!(
                            "{{\"s\":\"assign\",\"pl\":{},\"rv\":{},\"sp\":{}}}",
                            self.place(body, pl.as_ref()),
                            self.rvalue(body, rv, env),
                            self.span(st.source_info.span, snippet)
                        ));
                    }
                    StatementKind::SetDiscriminant { place, variant_index } => {
                        stmts.push(format!(
                            "{{\"s\":\"setdiscr\",\"pl\":{},\"vi\":{}}}",
                            self.place(body, place.as_ref().as_ref()),
                            variant_index.as_usize()
                        ));
                    }
                    StatementKind::Intrinsic(i) => {
                        stmts.push(format!("{{\"s\":\"intrinsic\",\"d\":{}}}", esc(&format!("{:?}", i))));
                    }
                    _ => {}
                }
            }
            let term = data.terminator();
            let tsp = self.span(term.source_info.span, true);
            let t = match &term.kind {
                TerminatorKind::Goto { target } => format!("{{\"t\":\"goto\",\"target\":{}}}", target.as_usize()),
                TerminatorKind::SwitchInt { discr, targets } => {
                    let mut arms = Vec::new();
                    for (v, bb) in targets.iter() {
                        arms.push(format!("[{},{}]", esc(&v.to_string()), bb.as_usize()));
                    }
                    format!(
                        "{{\"t\":\"switch\",\"discr\":{},\"arms\":{},\"otherwise\":{},\"sp\":{}}}",
                        self.operand(body, discr, env),
                        jlist(&arms),
                        targets.otherwise().as_usize(),
                        tsp
                    )
                }
                TerminatorKind::Return => "{\"t\":\"return\"}".to_string(),
                TerminatorKind::Unreachable => "{\"t\":\"unreachable\"}".to_string(),
                TerminatorKind::UnwindResume => "{\"t\":\"resume\"}".to_string(),
                TerminatorKind::UnwindTerminate(_) => "{\"t\":\"terminate\"}".to_string(),
                TerminatorKind::Drop { place, target, unwind, .. } => format!(
                    "{{\"t\":\"drop\",\"pl\":{},\"target\":{},\"unwind\":{}}}",
                    self.place(body, place.as_ref()),
                    target.as_usize(),
                    self.unwind(unwind)
                ),
                TerminatorKind::Call { func, args, destination, target, unwind, call_source, fn_span } => {
                    let f = match func {
                        Operand::Constant(c) => {
                            if let ty::FnDef(def, gargs) = c.const_.ty().kind() {
                                self.callee(*def, gargs, env)
                            } else {
                                "null".to_string()
                            }
                        }
                        _ => "null".to_string(),
                    };
                    let fop = match func {
                        Operand::Constant(_) => "null".to_string(),
                        other => self.operand(body, other, env),
                    };
                    let a: Vec<String> = args.iter().map(|x| self.operand(body, &x.node, env)).collect();
                    let tg = match target {
                        Some(b) => b.as_usize().to_string(),
                        None => "null".into(),
                    };
                    format!(
                        "{{\"t\":\"call\",\"callee\":{},\"fop\":{},\"args\":{},\"dest\":{},\"target\":{},\"unwind\":{},\"src\":{},\"sp\":{},\"fsp\":{}}}",
                        f,
                        fop,
                        jlist(&a),
                        self.place(body, destination.as_ref()),
                        tg,
                        self.unwind(unwind),
                        esc(&format!("{:?}", call_source)),
                        tsp,
                        self.span(*fn_span, true)
                    )
                }
                TerminatorKind::TailCall { .. } => "{\"t\":\"tailcall\"}".to_string(),
                TerminatorKind::Assert { cond, expected, msg, target, unwind } => format!(
                    "{{\"t\":\"assert\",\"cond\":{},\"expected\":{},\"msg\":{},\"target\":{},\"unwind\":{},\"sp\":{}}}",
                    self.operand(body, cond, env),
                    expected,
                    self.assert_kind(body, msg, env),
                    target.as_usize(),
                    self.unwind(unwind),
                    tsp
                ),
                TerminatorKind::Yield { value, resume, resume_arg, drop } => {
                    let d = match drop {
                        Some(b) => b.as_usize().to_string(),
                        None => "null".into(),
                    };
                    format!(
                        "{{\"t\":\"yield\",\"value\":{},\"resume\":{},\"resume_arg\":{},\"drop\":{}}}",
                        self.operand(body, value, env),
                        resume.as_usize(),
                        self.place(body, resume_arg.as_ref()),
                        d
                    )
                }
                TerminatorKind::CoroutineDrop => "{\"t\":\"coroutine_drop\"}".to_string(),
                TerminatorKind::FalseEdge { real_target, .. } => {
                    format!("{{\"t\":\"goto\",\"target\":{}}}", real_target.as_usize())
                }
                TerminatorKind::FalseUnwind { real_target, .. } => {
                    format!("{{\"t\":\"goto\",\"target\":{}}}", real_target.as_usize())
                }
                TerminatorKind::InlineAsm { .. } => "{\"t\":\"asm\"}".to_string(),
            };
            blocks.push(format!(
                "{{\"stmts\":{},\"term\":{},\"cleanup\":{}}}",
                jlist(&stmts),
                t,
                data.is_cleanup
            ));
        }
        let _ = write!(o, ",\"blocks\":{}}}", jlist(&blocks));
        let _ = BasicBlock::from_usize(0);
        o
    }

    fn adts(&mut self) -> Vec<String> {
        let tcx = self.tcx;
        let mut out = Vec::new();
        for id in tcx.hir_crate_items(()).definitions() {
            let did = id.to_def_id();
            match tcx.def_kind(did) {
                DefKind::Struct | DefKind::Enum | DefKind::Union => {}
                _ => continue,
            }
            let adt = tcx.adt_def(did);
            let mut variants = Vec::new();
            for (vi, v) in adt.variants().iter_enumerated() {
                let mut fields = Vec::new();
                for f in v.fields.iter() {
                    let fty = tcx.type_of(f.did).instantiate_identity().skip_norm_wip();
                    let t = self.ty(fty);
                    fields.push(format!(
                        "{{\"name\":{},\"t\":{},\"pub\":{}}}",
                        esc(f.name.as_str()),
                        t,
                        f.vis.is_public()
                    ));
                }
                let discr = if adt.is_enum() {
                    esc(&adt.discriminant_for_variant(tcx, vi).val.to_string())
                } else {
                    "null".into()
                };
                variants.push(format!(
                    "{{\"name\":{},\"discr\":{},\"fields\":{}}}",
                    esc(v.name.as_str()),
                    discr,
                    jlist(&fields)
                ));
            }
            let kind = if adt.is_enum() { "enum" } else if adt.is_union() { "union" } else { "struct" };
            out.push(format!(
                "{{\"name\":{},\"kind\":{},\"pub\":{},\"variants\":{},\"span\":{}}}",
                esc(&self.path(did)),
                esc(kind),
                tcx.visibility(did).is_public(),
                jlist(&variants),
                self.span(tcx.def_span(did), false)
            ));
        }
        out
    }

    fn impls(&mut self) -> Vec<String> {
        let tcx = self.tcx;
        let mut out = Vec::new();
        for id in tcx.hir_crate_items(()).definitions() {
            let did = id.to_def_id();
            if !matches!(tcx.def_kind(did), DefKind::Impl { .. }) {
                continue;
            }
            let self_ty = tcx.type_of(did).instantiate_identity().skip_norm_wip();
            let sti = self.ty(self_ty);
            let (tr, tr_full) = match tcx.impl_opt_trait_ref(did) {
                Some(tr) => (
                    esc(&self.path(tr.skip_binder().def_id)),
                    esc(&with_no_trimmed_paths!(format!("{}", tr.skip_binder().print_only_trait_path()))),
                ),
                None => ("null".into(), "null".into()),
            };
            let mut items = Vec::new();
            for it in tcx.associated_items(did).in_definition_order() {
                let k = format!("{:?}", it.kind);
                let k = k.split(|c| c == ' ' || c == '{' || c == '(').next().unwrap_or("").to_string();
                items.push(format!(
                    "{{\"name\":{},\"id\":{},\"def\":{},\"kind\":{}}}",
                    esc(it.name().as_str()),
                    esc(&self.id(it.def_id)),
                    esc(&self.path(it.def_id)),
                    esc(&k)
                ));
            }
            out.push(format!(
                "{{\"def\":{},\"self\":{},\"self_s\":{},\"trait\":{},\"trait_full\":{},\"derived\":{},\"items\":{},\"span\":{}}}",
                esc(&self.path(did)),
                sti,
                esc(&self.ty_str(self_ty)),
                tr,
                tr_full,
                tcx.is_automatically_derived(did),
                jlist(&items),
                self.span(tcx.def_span(did), false)
            ));
        }
        out
    }

    fn consts(&mut self) -> Vec<String> {
        let tcx = self.tcx;
        let mut out = Vec::new();
        for id in tcx.hir_crate_items(()).definitions() {
            let did = id.to_def_id();
            match tcx.def_kind(did) {
                DefKind::Const { .. } | DefKind::AssocConst { .. } => {}
                _ => continue,
            }
            // only evaluate monomorphic consts that have a value
            if tcx.generics_of(did).requires_monomorphization(tcx) {
                // lifetimes only are fine; type params are not
            }
            if let Some(tr) = tcx.trait_of_assoc(did) {
                let _ = tr;
                if !tcx.defaultness(did).has_value() {
                    continue;
                }
            }
            let cty = tcx.type_of(did).instantiate_identity().skip_norm_wip();
            let t = self.ty(cty);
            let mut val = "null".to_string();
            let has_ty_params = tcx.generics_of(did).own_params.iter().any(|p| matches!(p.kind, ty::GenericParamDefKind::Type { .. }))
                || tcx.generics_of(did).parent.map(|p| {
                    let g = tcx.generics_of(p);
                    g.own_params.iter().any(|p| matches!(p.kind, ty::GenericParamDefKind::Type { .. })) || g.has_self
                }).unwrap_or(false);
            if !has_ty_params {
                if let Ok(v) = tcx.const_eval_poly(did) {
                    if let ConstValue::Scalar(rustc_middle::mir::interpret::Scalar::Int(si)) = v {
                        let raw = si.to_bits(si.size());
                        let sval = match cty.kind() {
                            ty::Int(_) => (si.size().sign_extend(raw) as i128).to_string(),
                            _ => raw.to_string(),
                        };
                        val = esc(&sval);
                    }
                }
            }
            let mut impl_self = "null".to_string();
            if let Some(imp) = tcx.impl_of_assoc(did) {
                let st = tcx.type_of(imp).instantiate_identity().skip_norm_wip();
                impl_self = esc(&self.ty_str(st));
            }
            let name = match tcx.opt_item_name(did) {
                Some(n) => esc(n.as_str()),
                None => "null".into(),
            };
            out.push(format!(
                "{{\"def\":{},\"name\":{},\"t\":{},\"v\":{},\"impl_self\":{},\"span\":{}}}",
                esc(&self.path(did)),
                name,
                t,
                val,
                impl_self,
                self.span(tcx.def_span(did), false)
            ));
        }
        out
    }
}

struct Cb;

impl Callbacks for Cb {
    fn after_analysis<'tcx>(&mut self, _c: &Compiler, tcx: TyCtxt<'tcx>) -> Compilation {
        let out_dir = match std::env::var("SDLINT_OUT") {
            Ok(d) => d,
            Err(_) => return Compilation::Continue,
        };
        let krate = tcx.crate_name(LOCAL_CRATE).to_string();
        let only = std::env::var("SDLINT_CRATES").unwrap_or_default();
        if !only.is_empty() && !only.split(',').any(|c| c == krate) {
            return Compilation::Continue;
        }
        let mut ex = Ex {
            tcx,
            krate: krate.clone(),
            types: Vec::new(),
            type_ix: HashMap::new(),
            files: Vec::new(),
            file_ix: HashMap::new(),
        };
        let mut bodies = Vec::new();
        for ldid in tcx.hir_body_owners() {
            let did = ldid.to_def_id();
            match tcx.def_kind(did) {
                DefKind::Fn | DefKind::AssocFn | DefKind::Closure => {}
                _ => continue,
            }
            if !tcx.is_mir_available(did) {
                continue;
            }
            let body = tcx.optimized_mir(did);
            bodies.push(ex.body(did, body, None));
            for (pi, pbody) in tcx.promoted_mir(did).iter_enumerated() {
                bodies.push(ex.body(did, pbody, Some(pi.as_usize())));
            }
        }
        let adts = ex.adts();
        let impls = ex.impls();
        let consts = ex.consts();
        let files: Vec<String> = ex.files.iter().map(|f| esc(f)).collect();
        let mut o = String::new();
        let _ = write!(
            o,
            "{{\"crate\":{},\"files\":{},\"types\":{},\"adts\":{},\"impls\":{},\"consts\":{},\"bodies\":{}}}",
            esc(&krate),
            jlist(&files),
            jlist(&ex.types),
            jlist(&adts),
            jlist(&impls),
            jlist(&consts),
            jlist(&bodies)
        );
        let path = format!("{}/{}.json", out_dir, krate);
        let tmp = format!("{}.tmp.{}", path, std::process::id());
        std::fs::write(&tmp, o).expect("sdlint: cannot write fact file");
        std::fs::rename(&tmp, &path).expect("sdlint: cannot rename fact file");
        Compilation::Continue
    }
}

fn main() {
    let mut args: Vec<String> = std::env::args().collect();
    // RUSTC_WORKSPACE_WRAPPER: argv[1] is the path of the real rustc
    if args.len() > 1 && (args[1].ends_with("rustc") || args[1].contains("/rustc")) {
        args.remove(1);
    }
    let mut cb = Cb;
    rustc_driver::run_compiler(&args, &mut cb);
}
