//! Known-good / known-bad twins for the rules of the sdlint rule engine.  Analysed by the same driver and the same
//! engines as /repo on every run: each `bad_*` function must be reported, each `good_*` function must be silent.
#![allow(dead_code, clippy::all)]
use std::collections::HashSet;
use std::convert::TryInto;
use std::fmt;
use std::hash::{Hash, Hasher};

pub struct Err0;

// ---- numeric domain: fixed-offset reads
pub fn bad_fixed_read(data: &[u8], position: &mut usize) -> Result<u32, Err0> {
    let v = u32::from_be_bytes(data[*position..*position + 4].try_into().map_err(|_| Err0)?);
    *position += 4;
    Ok(v)
}
pub fn good_fixed_read(data: &[u8], position: &mut usize) -> Result<u32, Err0> {
    if *position + 4 > data.len() {
        return Err(Err0);
    }
    let v = u32::from_be_bytes(data[*position..*position + 4].try_into().map_err(|_| Err0)?);
    *position += 4;
    Ok(v)
}
pub fn bad_off_by_one(data: &[u8], position: &mut usize) -> Result<u8, Err0> {
    if *position > data.len() {
        return Err(Err0);
    }
    Ok(data[*position])
}
pub fn good_get(data: &[u8], position: &mut usize) -> Result<u8, Err0> {
    data.get(*position).copied().ok_or(Err0)
}
pub fn bad_unsigned_sub(a: usize, b: usize) -> usize {
    a - b
}
pub fn good_unsigned_sub(a: usize, b: usize) -> usize {
    if b > a {
        return 0;
    }
    a - b
}
pub fn bad_unwrap(data: &[u8]) -> &str {
    std::str::from_utf8(data).unwrap()
}
pub fn good_lossy(data: &[u8]) -> String {
    String::from_utf8_lossy(data).into_owned()
}
pub fn bad_alloc(data: &[u8]) -> Vec<u8> {
    if data.len() < 4 {
        return Vec::new();
    }
    let n = u32::from_be_bytes([data[0], data[1], data[2], data[3]]) as usize;
    Vec::with_capacity(n)
}
pub fn bad_alloc_u16(data: &[u8]) -> Vec<u64> {
    if data.len() < 2 {
        return Vec::new();
    }
    let n = u16::from_be_bytes([data[0], data[1]]) as usize;
    Vec::with_capacity(n)
}
pub fn good_alloc(data: &[u8]) -> Vec<u64> {
    if data.len() < 2 {
        return Vec::new();
    }
    let n = u16::from_be_bytes([data[0], data[1]]) as usize;
    Vec::with_capacity(n.min(data.len()))
}

// ---- loop progress
pub fn bad_loop_no_progress(data: &[u8], position: &mut usize) -> Result<u32, Err0> {
    let mut n = 0u32;
    while *position < data.len() {
        if data[*position] == 0 {
            *position += 1;
        }
        n = n.wrapping_add(1);
    }
    Ok(n)
}
pub fn good_loop_cursor(data: &[u8], position: &mut usize) -> Result<u32, Err0> {
    let mut n = 0u32;
    while *position < data.len() {
        n = n.wrapping_add(data[*position] as u32);
        *position += 1;
    }
    Ok(n)
}
pub fn good_loop_iter(data: &[u8]) -> u32 {
    let mut n = 0u32;
    for b in data.iter() {
        n = n.wrapping_add(*b as u32);
    }
    n
}

// ---- Display must not construct fmt::Error
pub struct BadText(pub Vec<u8>);
impl fmt::Display for BadText {
    fn fmt(&self, f: &mut fmt::Formatter<'_>) -> fmt::Result {
        match std::str::from_utf8(&self.0) {
            Ok(s) => f.write_str(s),
            Err(_) => Err(fmt::Error),
        }
    }
}
pub struct GoodText(pub Vec<u8>);
impl fmt::Display for GoodText {
    fn fmt(&self, f: &mut fmt::Formatter<'_>) -> fmt::Result {
        f.write_str(&String::from_utf8_lossy(&self.0))
    }
}

// ---- Hash must not depend on the iteration order of a hash collection
pub struct BadKey(pub HashSet<u16>);
impl Hash for BadKey {
    fn hash<H: Hasher>(&self, state: &mut H) {
        self.0.iter().for_each(|v| v.hash(state));
    }
}
pub struct GoodKey(pub HashSet<u16>);
impl Hash for GoodKey {
    fn hash<H: Hasher>(&self, state: &mut H) {
        let mut v: Vec<_> = self.0.iter().collect();
        v.sort();
        v.hash(state);
    }
}

// ---- code tables
#[derive(Debug, Clone, Copy, PartialEq, Eq)]
pub enum Code {
    A,
    B,
    Other(u16),
}
pub fn good_code_from(v: u16) -> Code {
    match v {
        1 => Code::A,
        2 => Code::B,
        v => Code::Other(v),
    }
}
pub fn good_code_to(c: Code) -> u16 {
    match c {
        Code::A => 1,
        Code::B => 2,
        Code::Other(v) => v,
    }
}
pub fn bad_code_to(c: Code) -> u16 {
    match c {
        Code::A => 1,
        Code::B => 3,
        Code::Other(v) => v,
    }
}

// ---- char narrowing
pub fn bad_char_cast(s: &str) -> usize {
    s.split(|c| (c as u8) == b';').count()
}
pub fn good_char_cmp(s: &str) -> usize {
    s.split(|c| c == ';').count()
}

// ---- writer byte counts
pub struct Rec {
    pub a: u16,
    pub data: Vec<u8>,
}
impl Rec {
    pub fn write_to<T: std::io::Write>(&self, out: &mut T) -> Result<(), std::io::Error> {
        out.write_all(&self.a.to_be_bytes())?;
        out.write_all(&self.data)?;
        Ok(())
    }
    pub fn good_len(&self) -> usize {
        self.data.len() + 2
    }
    pub fn bad_len(&self) -> usize {
        self.data.len() + 4
    }
}


// ---- split always yields at least one piece; a second piece is not guaranteed
pub fn good_split_first(s: &str) -> usize {
    let parts = s.split(|c| c == '=').collect::<Vec<&str>>();
    parts[0].len()
}
pub fn bad_split_second(s: &str) -> usize {
    let parts = s.split(|c| c == '=').collect::<Vec<&str>>();
    parts[1].len()
}

// ---- (x & MASK) == MASK implies x >= MASK; (x & MASK) != 0 does not
pub fn good_masked_guard(data: &[u8; 256], x: u8) -> u8 {
    if x & 0xC0 == 0xC0 {
        data[(x - 0xC0) as usize]
    } else {
        0
    }
}
pub fn bad_masked_guard(data: &[u8; 256], x: u8) -> u8 {
    if x & 0xC0 != 0 {
        data[(x - 0xC0) as usize]
    } else {
        0
    }
}


// ---- a sorted clone keeps the elements of its source; a deduplicated one does not
#[derive(Clone)]
pub struct Win {
    pub block: u8,
    pub bitmap: Vec<u8>,
}
pub struct Maps {
    pub maps: Vec<Win>,
}
impl Maps {
    pub fn len(&self) -> usize {
        self.maps.iter().map(|m| m.bitmap.len() + 2).sum()
    }
    pub fn good_write_sorted<T: std::io::Write>(&self, out: &mut T) -> Result<(), std::io::Error> {
        let mut sorted = self.maps.clone();
        sorted.sort_by(|a, b| a.block.cmp(&b.block));
        for m in sorted.iter() {
            out.write_all(&[m.block])?;
            out.write_all(&[m.bitmap.len() as u8])?;
            out.write_all(&m.bitmap)?;
        }
        Ok(())
    }
    pub fn bad_write_dedup<T: std::io::Write>(&self, out: &mut T) -> Result<(), std::io::Error> {
        let mut sorted = self.maps.clone();
        sorted.sort_by(|a, b| a.block.cmp(&b.block));
        sorted.dedup_by_key(|m| m.block);
        for m in sorted.iter() {
            out.write_all(&[m.block])?;
            out.write_all(&[m.bitmap.len() as u8])?;
            out.write_all(&m.bitmap)?;
        }
        Ok(())
    }
}


// ---- equality that folds case needs a hash that folds case
pub struct BadCaseKey(pub Vec<u8>);
impl PartialEq for BadCaseKey {
    fn eq(&self, other: &Self) -> bool {
        self.0.eq_ignore_ascii_case(&other.0)
    }
}
impl std::hash::Hash for BadCaseKey {
    fn hash<H: std::hash::Hasher>(&self, state: &mut H) {
        self.0.hash(state);
    }
}
pub struct GoodCaseKey(pub Vec<u8>);
impl PartialEq for GoodCaseKey {
    fn eq(&self, other: &Self) -> bool {
        self.0.eq_ignore_ascii_case(&other.0)
    }
}
impl std::hash::Hash for GoodCaseKey {
    fn hash<H: std::hash::Hasher>(&self, state: &mut H) {
        self.0.to_ascii_lowercase().hash(state);
    }
}


// ---- checked slicing: `get(range).ok_or(..)?` bounds what follows exactly like an explicit length test
pub fn good_get_range(data: &[u8], position: &mut usize) -> Result<u8, Err0> {
    let fixed = data.get(*position..*position + 4).ok_or(Err0)?;
    Ok(fixed[3])
}
pub fn bad_get_range(data: &[u8], position: &mut usize) -> Result<u8, Err0> {
    let fixed = data.get(*position..*position + 4).ok_or(Err0)?;
    Ok(fixed[4])
}
pub fn good_get_elem(data: &[u8], position: &mut usize) -> Result<u8, Err0> {
    let first = match data.get(*position) {
        Some(b) => *b,
        None => return Err(Err0),
    };
    Ok(first.wrapping_add(data[*position]))
}
